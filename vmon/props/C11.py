"""C11 — a clear copy-number step is found and localised; flat profiles stay
unsegmented.  The oracle is the generator's ground truth; the monitor sits on
do_segmentation and judges every chromosome of every observed call whose case
carries a truth record.  Recorders on haarSeg / hmm_get_model say which stage
lost a step when the monitor fires.
"""
import numpy as np

from .. import runtime as rt
from ..gen import make_cna

TITLE = "A clear copy-number step is found and localised; flat profiles stay unsegmented"
RULE = ("tables of 1..3 autosomes, each independently flat (100..600 bins) or a single step (100..400 bins per side) between 0 and -1 / +0.585 (and +1 for "
        "haar), in either direction, Gaussian bin noise sd in [0.01, 0.1] (incl. exactly 0.1 and 0.01), weights in [0.5, 1], random bin sizes (per chromosome: 200..5000, 5..50 kb or 100..400 kb) "
        "and gaps < 10 kb; segmented by haar and hmm-germline with default options and 1 or 2 processes. Distinct by table fingerprint; every case is "
        "non-trivial (>= 100 noisy bins).")
ASSUMPTIONS = [
    "statistical envelope: asserted on every generated chromosome because the unchanged tree shows 0 failures in the sweeps recorded in DESIGN.md; a red run is a regression only relative to that base rate",
    "chromosomes are autosomes (hmm-germline fits its noise model on autosomes); gaps stay below 10 kb except for one hole of 1-3 Mb clearly inside the middle part of some flat chromosomes, which then have two arms",
    "segment mean = the segment's log2 column; breakpoint position = cumulative probes of the first segment (no bin is filtered: weights > 0, no null bins; the default outlier filter may drop a bin, which moves the count by at most that many bins and is inside the 5-bin tolerance)",
    "hmm and hmm-tumor are outside the claim and not driven",
]
BUDGET_S = {"quick": 600, "thorough": 2400}

MON = "segmentation.do_segmentation[truth]"


def pre_truth(run, args, kwargs):
    truth = (run.case or {}).get("truth")
    return {"truth": truth, "method": args[1] if len(args) > 1 else kwargs.get("method")}


def post_truth(run, snap, res, args, kwargs):
    truth, method = snap["truth"], snap["method"]
    if not truth or method not in ("haar", "hmm-germline"):
        return run.ood(MON, "no-ground-truth-or-method-outside-claim")
    if isinstance(res, tuple):
        res = res[0]
    df = res.data
    diag = dict(getattr(run._tls, "c11_diag", None) or {})
    for t in truth:
        sub = df[df["chromosome"] == t["chrom"]]
        segs = [(int(s), int(e), float(l), int(p)) for s, e, l, p in zip(sub["start"], sub["end"], sub["log2"], sub["probes"])]
        wit = {"method": method, "truth": t, "segments": segs, "noise_sd": t["sd"], "diagnosis": diag,
               "log2": t.get("log2_head")}
        if t["kind"] == "flat":
            arms = t.get("arms") or [t["n"]]
            if len(segs) != len(arms):
                run.violate(MON, f"{method}-flat-profile-segmented" if len(segs) > len(arms) else f"{method}-arms-fused",
                            f"{t['chrom']}: flat profile of {t['n']} bins (sd {t['sd']:.3f}) in {len(arms)} arm(s) gave {len(segs)} segments", wit)
            elif len(arms) == 2 and abs(segs[0][3] - arms[0]) > 5:
                run.violate(MON, f"{method}-arm-boundary-misplaced", f"{t['chrom']}: first arm holds {arms[0]} bins, first segment {segs[0][3]}", wit)
            else:
                run.held(MON, f"{method}:flat" + (":two-arms" if len(arms) == 2 else ""))
            continue
        cls = f"{method}:step:{t['left']:+.3f}->{t['right']:+.3f}"
        if len(segs) != 2:
            run.violate(MON, f"{method}-step-{'missed' if len(segs) < 2 else 'oversegmented'}", f"{t['chrom']}: step {t['left']}->{t['right']} at bin {t['at']} of {t['n']} (sd {t['sd']:.3f}) gave {len(segs)} segments", wit)
            continue
        if abs(segs[0][3] - t["at"]) > 5:
            run.violate(MON, f"{method}-breakpoint-mislocated", f"{t['chrom']}: breakpoint after {segs[0][3]} bins, true step after {t['at']}", wit)
            continue
        if abs(segs[0][2] - t["left"]) > 0.1 or abs(segs[1][2] - t["right"]) > 0.1:
            run.violate(MON, f"{method}-segment-mean-off", f"{t['chrom']}: means {segs[0][2]:.3f},{segs[1][2]:.3f} vs levels {t['left']},{t['right']}", wit)
            continue
        run.held(MON, cls)


def exc_truth(run, snap, exc, args, kwargs):
    if snap and snap["truth"] and snap["method"] in ("haar", "hmm-germline"):
        run.violate(MON, f"{snap['method']}-raises-{type(exc).__name__}", f"raised {exc!r}", {"truth": snap["truth"]})


def _post_haarseg(run, snap, res, args, kwargs):
    d = getattr(run._tls, "c11_diag", None)
    if d is not None:
        d.setdefault("haarSeg_segments_per_arm", []).append(int(len(res["start"])))


def _post_model(run, snap, res, args, kwargs):
    d = getattr(run._tls, "c11_diag", None)
    if d is not None:
        try:
            d["hmm_state_means_sd"] = [[float(x) for x in s.distribution.parameters] for s in res.states if s.distribution is not None]
        except Exception:
            pass


def setup(run):
    import cnvlib.segmentation as S
    import cnvlib.commands as CM
    from cnvlib.segmentation import haar, hmm
    import cnvlib.segfilters as F
    import cnvlib.cnary as CN
    import cnvlib.smoothing as SM
    rt.attach(haar, "haarSeg", name="haar.haarSeg[diag]", post=_post_haarseg)
    rt.attach(hmm, "hmm_get_model", name="hmm.hmm_get_model[diag]", post=_post_model)
    rt.attach(S, "do_segmentation", name=MON, pre=pre_truth, post=post_truth, on_exc=exc_truth, also=[(CM, "do_segmentation")])
    return [("haar.haarSeg", rt.opt(haar, "haarSeg")), ("haar.FDRThres", rt.opt(haar, "FDRThres")), ("haar.HaarConv", rt.opt(haar, "HaarConv")), ("haar.FindLocalPeaks", rt.opt(haar, "FindLocalPeaks")),
            ("haar.UnifyLevels", rt.opt(haar, "UnifyLevels")), ("haar.SegmentByPeaks", rt.opt(haar, "SegmentByPeaks")), ("hmm.hmm_get_model", rt.opt(hmm, "hmm_get_model")),
            ("hmm.segment_hmm", rt.opt(hmm, "segment_hmm")), ("segfilters.squash_by_groups", rt.opt(F, "squash_by_groups")), ("CopyNumArray.smooth_log2", rt.opt(CN.CopyNumArray, "smooth_log2")),
            ("smoothing.savgol", rt.opt(SM, "savgol"))]


def gen_profile(rng, method, i):
    nchr = int(rng.integers(1, 4))
    cols = {k: [] for k in ("chromosome", "start", "end", "gene", "log2", "depth", "weight")}
    truth = []
    levels = [-1.0, 0.585] + ([1.0] if method == "haar" else [])
    prefix = "chr" if rng.random() < 0.7 else ""
    for ci in range(nchr):
        chrom = prefix + str(ci + 1)
        sd = float(rng.choice([0.01, 0.1])) if rng.random() < 0.25 else float(rng.uniform(0.01, 0.1))
        if rng.random() < 0.35:
            n = int(rng.integers(100, 601))
            sig = np.zeros(n)
            t = {"chrom": chrom, "kind": "flat", "n": n, "sd": sd, "arms": [n]}
            margin = max(50, int(round(0.1 * n)))
            if n > 2 * margin + 40 and rng.random() < 0.4:
                # a centromere-sized hole clearly inside the middle part: two arms, one segment each
                cut = int(rng.integers(margin + 10, n - margin - 10))
                t["arms"] = [cut, n - cut]
                t["hole_before_bin"] = cut
        else:
            nl, nr = int(rng.integers(100, 401)), int(rng.integers(100, 401))
            if rng.random() < 0.15:
                nl = 100
            if rng.random() < 0.15:
                nr = 100
            lvl = float(levels[int(rng.integers(0, len(levels)))])
            left, right = (0.0, lvl) if rng.random() < 0.5 else (lvl, 0.0)
            n = nl + nr
            sig = np.concatenate([np.full(nl, left), np.full(nr, right)])
            t = {"chrom": chrom, "kind": "step", "n": n, "at": nl, "left": left, "right": right, "sd": sd}
        log2 = sig + rng.normal(0, sd, n)
        # bin-size class per chromosome: capture-sized, wide, or antitarget/WGS-sized
        # (>= 100 kb bins, still no 100 kb hole between bins, so no arm split)
        lo, hi = ((200, 5000), (5000, 50000), (100000, 400000))[int(rng.choice([0, 0, 1, 2]))]
        sizes = rng.integers(lo, hi, n)
        t["bin_sizes"] = [lo, hi]
        gaps = np.where(rng.random(n) < 0.5, 0, rng.integers(0, 10000, n))
        pos = int(rng.integers(0, 1000000))
        starts, ends = [], []
        for k in range(n):
            pos += int(gaps[k])
            if t.get("hole_before_bin") == k:
                pos += int(rng.integers(1_000_000, 3_000_000))
            starts.append(pos)
            pos += int(sizes[k])
            ends.append(pos)
        w = rng.uniform(0.5, 1.0, n)
        t["log2_head"] = None
        truth.append(t)
        cols["chromosome"] += [chrom] * n
        cols["start"] += starts
        cols["end"] += ends
        cols["gene"] += [f"G{k // 7}" for k in range(n)]
        cols["log2"] += log2.tolist()
        cols["depth"] += (np.exp2(log2) * 100).tolist()
        cols["weight"] += w.tolist()
    return cols, truth


def _n(tier):
    return 480 if tier == "quick" else 6000


def case_profile(run, i):
    import cnvlib.segmentation as S
    method = ("haar", "hmm-germline")[i % 2]
    rng = run.rng("profile", i)
    cols, truth = gen_profile(rng, method, i)
    kinds = "+".join(sorted({t["kind"] for t in truth}))
    run.begin_case("profile", i, cls=f"profile:{method}:{kinds}", method=method, truth=truth)
    run._tls.c11_diag = {}
    cna = make_cna(cols, meta={"sample_id": "S"}, odd=(i % 5 == 2))
    try:
        S.do_segmentation(cna, method, processes=1 if (i // 2) % 3 else 2)
    except Exception:
        pass
    run._tls.c11_diag = None
    run.end_case(fp=rt.fingerprint(cols["log2"][:50] + cols["start"][:20], 12), nontrivial=True,
                 sample={"method": method, "truth": truth} if i % 199 == 0 else None)


WORKLOADS = {"profile": (_n, case_profile)}
_Q = {MON + "|held": 600, "class:haar:flat": 10, "class:hmm-germline:flat": 10, "class:haar:flat:two-arms": 5, "class:hmm-germline:flat:two-arms": 5,
      "class:haar:step:+0.000->-1.000": 3, "class:haar:step:-1.000->+0.000": 3, "class:haar:step:+0.000->+0.585": 3, "class:haar:step:+0.585->+0.000": 3,
      "class:haar:step:+0.000->+1.000": 3, "class:haar:step:+1.000->+0.000": 3,
      "class:hmm-germline:step:+0.000->-1.000": 3, "class:hmm-germline:step:-1.000->+0.000": 3,
      "class:hmm-germline:step:+0.000->+0.585": 3, "class:hmm-germline:step:+0.585->+0.000": 3}
QUOTAS = {"quick": _Q, "thorough": dict(_Q, **{MON + "|held": 8000})}
