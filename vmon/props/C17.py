"""C17 — segment statistics and bin tests match their definitions on the right
bins.  Monitors on do_segmetrics / do_bintest / p_adjust_bh / residuals
recompute every requested statistic from first principles on the bins that
overlap each segment (brute-force overlap), check interval ordering and
range, re-run the bootstrap under another RNG state, and compare BH with its
O(n^2) definition.
"""
import itertools

import numpy as np

from .. import runtime as rt
from ..gen import make_cna
from ..monitors import segstats, robust

TITLE = "Segment statistics and bin tests match their definitions on the right bins"
RULE = ("bin tables (1..3 chromosomes) with segmentations tiling them: 1..300 bins per segment plus segments with 0 bins (placed in a gap) and 1 bin, "
        "tied log2 values, weights in (0,1] (a tenth exactly 1; for bintest a weight-1 bin exactly at its segment level takes the limit p = 1), null-coverage bins; every subset of location/spread/interval statistics, "
        "alpha in {0.001, 0.05, 0.5, 0.9}, bootstraps 10..200, smoothed on/off, skip_low; p-vectors of length 1..200 with ties, 0 and 1 for BH. "
        "Distinct by table fingerprint; non-trivial when a segment has >= 2 bins.")
ASSUMPTIONS = [
    "for 1-bin segments the library's trivial-length shortcut (0) is accepted as well as the definition's value (NaN for sem)",
    "bivar is judged against the published formula with either n (points inside the cutoff or sample size); skipped when c*MAD is below the documented floor",
    "the t-test is skipped when the bins' log2 have zero variance; 'mode' is not in the statement and is not judged here",
    "bintest with target_only accepts BH over on-target bins only (what the code does) or over all bins then filtered",
    "bins whose adjusted p is within 1e-12 of alpha may fall either side",
]
BUDGET_S = {"quick": 600, "thorough": 2400}
LOC = ("mean", "median", "mode", "p_ttest")
SPREAD = ("stdev", "mad", "mse", "iqr", "bivar", "sem")
INTERVAL = ("ci", "pi")


def setup(run):
    t = segstats.attach_all(run, rt)
    t += robust.attach_all(run, rt)     # the estimators segmetrics uses are judged too
    return t


def _table(rng, bintest=False):
    nchr = int(rng.integers(1, 4))
    full = (not bintest) or rng.random() < 0.5       # bintest: half the tables hold bins of weight exactly 1
    bins = {k: [] for k in ("chromosome", "start", "end", "gene", "log2", "weight", "depth")}
    segs = {k: [] for k in ("chromosome", "start", "end", "gene", "log2", "probes", "weight")}
    for c in ["chr2", "chr10", "chrX"][:nchr]:      # natural order differs from string order
        pos = 1000
        for _s in range(int(rng.integers(1, 6))):
            kind = rng.random()
            nb = 0 if kind < 0.1 else 1 if kind < 0.25 else int(rng.integers(2, 12)) if kind < 0.7 else int(rng.integers(12, 301))
            level = float(rng.choice([0.0, -1.0, 0.58, 0.3, -0.2]))
            seg_start = pos
            if bins["end"] and bins["chromosome"][-1] == c and pos < bins["end"][-1]:
                pos = bins["end"][-1]      # bins resume after the straddling bin
            vals, wts = [], []
            for _b in range(nb):
                ln = int(rng.integers(100, 400))
                v = level + float(rng.normal(0, 0.25))
                if rng.random() < 0.2:
                    v = round(v, 1)       # ties
                null = (not bintest) and rng.random() < 0.04
                w = float(rng.uniform(0.05, 0.999)) if rng.random() < 0.9 or not full else 1.0      # `fix` clips weights to at most 1, so exactly 1 occurs
                bins["chromosome"].append(c); bins["start"].append(pos); bins["end"].append(pos + ln)
                bins["gene"].append("Antitarget" if rng.random() < 0.3 else f"G{_s}")
                bins["log2"].append(-20.0 if null else v); bins["weight"].append(w); bins["depth"].append(0.0 if null else float(rng.uniform(1, 300)))
                vals.append(v); wts.append(w)
                pos += ln + int(rng.choice([0, 0, 50]))
            if nb == 0:
                pos += 5000     # a segment lying in a gap: no bins overlap it
            seg_end = pos if nb == 0 else bins["end"][-1]
            # the segment's log2 need not equal its bins' mean (that is the point of the deviations)
            slog = (float(np.average(vals, weights=wts)) if vals else level) + float(rng.choice([0.0, 0.0, 0.1, -0.3]))
            if bintest and nb >= 2:
                # full-weight bins a hair away from the segment level: infinitely significant by the definition (sd = 0), easily lost by a variance floor
                for k in range(len(bins["log2"]) - nb, len(bins["log2"])):
                    if bins["weight"][k] == 1.0 and rng.random() < 0.5:
                        bins["log2"][k] = slog + float(rng.choice([-1, 1])) * float(rng.choice([0.001, 0.004, 0.02]))
            segs["chromosome"].append(c); segs["start"].append(seg_start); segs["end"].append(seg_end); segs["gene"].append("-")
            segs["log2"].append(slog); segs["probes"].append(nb); segs["weight"].append(float(sum(wts)))
            pos = seg_end + int(rng.choice([0, 0, 1000]))
            if not bintest and nb >= 2 and rng.random() < 0.35:
                # boundary inside a bin: the last bin straddles this segment's end and also overlaps the next segment
                cut = bins["end"][-1] - int(rng.integers(1, bins["end"][-1] - bins["start"][-1]))
                segs["end"][-1] = cut
                pos = cut
                straddle = True
    return bins, segs


def _n(tier):
    return 160 if tier == "quick" else 3000


def _subset(rng, names):
    k = int(rng.integers(0, len(names) + 1))
    return tuple(rng.choice(names, k, replace=False)) if k else ()


def case_table(run, i):
    import cnvlib.segmetrics as S
    import cnvlib.bintest as B
    rng = run.rng("table", i)
    bins, segs = _table(rng, bintest=(i % 2 == 1))
    if not bins["start"]:
        return
    run.begin_case("table", i, cls="table:" + ("bintest" if i % 2 else "segmetrics"))
    cna, seg = make_cna(bins, odd=(i % 3 == 1)), make_cna(segs, odd=(i % 4 == 2))
    if i % 2 == 0:
        for rep in range(2):
            loc, spr, itv = _subset(rng, LOC), _subset(rng, SPREAD), _subset(rng, INTERVAL)
            if rep == 0:
                loc, spr, itv = LOC, SPREAD, INTERVAL
            try:
                S.do_segmetrics(cna, seg, loc, spr, itv, float(rng.choice([0.001, 0.05, 0.5, 0.9])) if rep else 0.05,
                                int(rng.integers(10, 201)), bool(rng.integers(0, 2)) if rep else False, bool(rng.integers(0, 2)))
            except Exception:
                pass
    else:
        for alpha in (float(rng.choice([0.001, 0.05, 0.5, 0.9])), 0.005):
            try:
                B.do_bintest(cna, seg, alpha, bool(rng.integers(0, 2)))
            except Exception:
                pass
        try:
            cna.residuals(seg)
        except Exception:
            pass
    # BH directly
    n = int(rng.integers(1, 201))
    p = rng.uniform(0, 1, n) ** float(rng.choice([1, 3, 8]))
    if rng.random() < 0.5:
        p = np.round(p, 2)
    if rng.random() < 0.3:
        p[rng.integers(0, n)] = 0.0
        p[rng.integers(0, n)] = 1.0
    try:
        B.p_adjust_bh(p)
    except Exception:
        pass
    run.end_case(fp=rt.fingerprint([bins["log2"], segs["start"], p], 12), nontrivial=max(segs["probes"]) >= 2,
                 sample={"segments": list(zip(segs["chromosome"], segs["start"], segs["end"], segs["probes"]))[:5]} if i % 53 == 0 else None)


def _n_cli(tier):
    return 24 if tier == "quick" else 200


def case_cli(run, i):
    """`cnvkit.py segmetrics` / `bintest` on written files: which statistics, alpha, bootstraps, smoothing, skip_low, target_only and
    which tables reach the function, and that the output file holds the returned table."""
    import os
    import shutil
    from skgenome import tabio
    from cnvlib import commands as CM
    from ..monitors import cli_plumb
    rng = run.rng("cli", i)
    bins, segs = _table(rng, bintest=(i % 2 == 1))
    if len(bins["start"]) < 2:
        return
    if i % 3 == 0:
        bins["gene"] = [g if k % 5 else f"AMPL#{k}" for k, g in enumerate(bins["gene"])]      # amplicon-style labels
    d = os.path.join(run.workdir, f"cli17_{run.shard}_{i}")
    os.makedirs(d, exist_ok=True)
    pb, ps, po = os.path.join(d, "S.cnr"), os.path.join(d, "S.cns"), os.path.join(d, "out.tsv")
    with run.monitor_scope():
        tabio.write(make_cna(bins), pb)
        tabio.write(make_cna(segs), ps)
    if i % 2 == 0:
        flags = {"--mean": ("location_stats", "mean"), "--median": ("location_stats", "median"), "--mode": ("location_stats", "mode"),
                 "--t-test": ("location_stats", "p_ttest"), "--stdev": ("spread_stats", "stdev"), "--sem": ("spread_stats", "sem"),
                 "--mad": ("spread_stats", "mad"), "--mse": ("spread_stats", "mse"), "--iqr": ("spread_stats", "iqr"), "--bivar": ("spread_stats", "bivar"),
                 "--ci": ("interval_stats", "ci"), "--pi": ("interval_stats", "pi")}
        names = list(flags)
        chosen = [names[k] for k in sorted(rng.choice(len(names), int(rng.integers(1, len(names) + 1)), replace=False).tolist())]
        order = list(rng.permutation(len(chosen)))
        chosen = [chosen[k] for k in order]
        alpha, boots = float(rng.choice([0.05, 0.2, 0.5])), int(rng.choice([30, 60]))
        smooth, low = bool(rng.integers(0, 2)), bool(rng.integers(0, 2))
        argv = ["segmetrics", pb, "-s", ps, "-o", po, "-a", repr(alpha), "-b", str(boots)] + chosen + (["--smooth-bootstrap"] if smooth else []) + (["--drop-low-coverage"] if low else [])
        want = {"location_stats": [], "spread_stats": [], "interval_stats": []}
        for f in chosen:
            want[flags[f][0]].append(flags[f][1])
        run.begin_case("cli", i, cls="cli:segmetrics", argv=argv[4:])
        # the order of the statistics lists is the order of the flags; compare as sets, the rest exactly
        out = cli_plumb.run_subcommand(run, rt, CM, "do_segmetrics", argv)
        mon = "cli.segmetrics[plumbing]"
        wit = {"argv": argv[4:]}
        if len(out["calls"]) != 1 or isinstance(out["calls"][0][2], Exception):
            run.violate(mon, "segmetrics-cli-function-not-reached-once", f"do_segmetrics reached {len(out['calls'])} times / raised: {out['raised']!r}", wit)
        else:
            a, k, res = out["calls"][0]
            names_ = ["cnarr", "segarr", "location_stats", "spread_stats", "interval_stats", "alpha", "bootstraps", "smoothed", "skip_low"]
            got = dict(zip(names_, a))
            got.update(k)
            bad = None
            for key in ("location_stats", "spread_stats", "interval_stats"):
                if sorted(got.get(key) or []) != sorted(want[key]):
                    bad = (key, sorted(got.get(key) or []), sorted(want[key]))
            for key, val in (("alpha", alpha), ("bootstraps", boots), ("smoothed", smooth), ("skip_low", low)):
                if got.get(key) != val:
                    bad = (key, got.get(key), val)
            if len(got["cnarr"]) != len(bins["start"]) or len(got["segarr"]) != len(segs["start"]):
                bad = ("tables", (len(got["cnarr"]), len(got["segarr"])), (len(bins["start"]), len(segs["start"])))
            if bad:
                run.violate(mon, f"segmetrics-cli-passes-wrong-{bad[0]}", f"{bad[0]}: command line asks for {bad[2]!r}, do_segmetrics received {bad[1]!r}", wit)
            else:
                fcols = [c for c in res.data.columns if c not in ("chromosome", "start", "end", "gene", "probes")]
                msg = cli_plumb.file_matches_table(cli_plumb.read_tsv(po), res.data, float_cols=fcols, opt_int=("probes",)) if os.path.exists(po) else "no output file"
                if msg:
                    run.violate(mon, "segmetrics-cli-file-differs-from-result", msg, wit)
                else:
                    run.held(mon, "cli-segmetrics")
    else:
        alpha, tonly, withseg = float(rng.choice([0.005, 0.05, 0.5])), bool(rng.integers(0, 2)), bool(i % 4 == 1)
        argv = ["bintest", pb, "-a", repr(alpha), "-o", po] + (["-t"] if tonly else []) + (["-s", ps] if withseg else [])
        run.begin_case("cli", i, cls="cli:bintest", argv=argv[2:])
        r = cli_plumb.check_cli(run, rt, CM, "do_bintest", argv, dict(alpha=alpha, target_only=tonly, segments=withseg), "bintest", truthy=("segments",))
        if r is not None:
            got, res, wit = r
            if len(got["cnarr"]) != len(bins["start"]) or (withseg and len(got["segments"]) != len(segs["start"])):
                run.violate("cli.bintest[plumbing]", "bintest-cli-passes-wrong-tables", "the tables reaching do_bintest are not the files' tables", wit)
            else:
                msg = cli_plumb.file_matches_table(cli_plumb.read_tsv(po), res.data, float_cols=("log2", "p_bintest"), opt_int=()) if os.path.exists(po) else "no output file"
                if msg:
                    run.violate("cli.bintest[plumbing]", "bintest-cli-file-differs-from-result", msg, wit)
                else:
                    cli_plumb.held(run, "bintest", "cli-bintest")
    shutil.rmtree(d, ignore_errors=True)
    run.end_case(fp=rt.fingerprint([bins["log2"][:30], i], 12), nontrivial=True)


WORKLOADS = {"table": (_n, case_table), "cli": (_n_cli, case_cli)}
_Q = {"cli.segmetrics[plumbing]|held": 8, "cli.bintest[plumbing]|held": 8, "segmetrics.do_segmetrics|held": 100, "segmetrics.do_segmetrics[ci-repro]|held": 50, "bintest.do_bintest|held": 100,
      "bintest.p_adjust_bh|held": 250, "CopyNumArray.residuals|held": 100}
QUOTAS = {"quick": _Q, "thorough": _Q}

INTERNAL_MONITORS = {"bintest.p_adjust_bh": [], "CopyNumArray.residuals": []}