"""C14 — segment filters merge only adjacent like segments and conserve what
they merge.  Monitors sit on segfilters.cn/ci/sem/ampdel themselves (reached
from do_call through getattr), so in a chained call each filter is judged on
the table it was actually given; a do_call monitor checks the order.
"""
import itertools

import numpy as np

from .. import runtime as rt
from ..gen import make_cna
from ..monitors import segfilt, calling

TITLE = "Segment filters merge only adjacent like segments and conserve"
RULE = ("segment tables of 1..6 chromosomes x 1..30 segments with gaps, cn in 0..9 in runs, ci/sem on and around 0 (ci_lo=0, ci_hi=0 exactly), "
        "weights incl. zero and all-zero runs, with/without probes, cn1/cn2, non-default row index; each table goes (a) through every filter "
        "directly and (b) through do_call with an ordered list of distinct filters (<=1 of ci/sem) x method {threshold, clonal, none}. "
        "Distinct by table fingerprint; non-trivial when some run has >= 2 segments.")
ASSUMPTIONS = [
    "tables with missing allele-specific cn: neighbours that share the level and both lack allele-specific cn must merge, neighbours differing in level or in known allele-specific cn must not, a segment without next to one with allele-specific cn is left open; plus the conservation clauses",
    "when allele-specific columns exist every filter's level includes (cn1, cn2), as the cn filter's does in the statement",
    "with zero total weight the plain mean of log2 is the expected value",
    "sem/ci boundaries are generated with exact zeros or a margin >= 1e-6 (no float ties at log2 +- 1.96*sem = 0)",
]
BUDGET_S = {"quick": 600, "thorough": 2400}

FILTER_LISTS = [list(p) for k in (1, 2, 3) for p in itertools.permutations(["cn", "ci", "sem", "ampdel"], k)
                if not ("ci" in p and "sem" in p)]


def setup(run):
    t = segfilt.attach_all(run, rt)
    t += calling.attach_all(run, rt)
    return t


def _table(rng, with_cn=True):
    nchr = int(rng.integers(1, 7))
    names = ["chr1", "chr2", "chr5", "chr11", "chrX", "chrY"][:nchr]
    cols = {k: [] for k in ("chromosome", "start", "end", "gene", "log2", "probes", "weight", "ci_lo", "ci_hi", "sem", "cn", "cn1", "cn2", "depth")}
    for c in names:
        n = int(rng.integers(1, 31))
        pos = 0
        cn = int(rng.integers(0, 10))
        lvl = int(rng.integers(-1, 2))
        a1 = int(rng.integers(0, cn + 1))
        for _ in range(n):
            if rng.random() < 0.45:
                cn = int(rng.choice([0, 1, 2, 2, 3, 4, 5, 6, 9]))
            if rng.random() < 0.4:
                lvl = int(rng.integers(-1, 2))
            if rng.random() < 0.35:
                a1 = int(rng.integers(0, cn + 1))
            a1 = min(a1, cn)
            pos += int(rng.choice([0, 0, 1, 500, 40000]))
            ln = int(rng.integers(1, 100000))
            mag = float(rng.choice([0.0, 1e-6, 0.01, 0.3, 2.0]))
            half = float(rng.choice([0.0, 1e-6, 0.05, 0.5]))
            centre = lvl * (mag + half + (1e-6 if lvl else 0.0))
            lo, hi = centre - half, centre + half
            if lvl == 0 and rng.random() < 0.3:
                lo, hi = (0.0, half) if rng.random() < 0.5 else (-half, 0.0)   # boundary: ci_lo = 0 / ci_hi = 0 exactly
            log2 = (lo + hi) / 2
            # sem chosen so that log2 +- 1.96 sem has the same sign pattern as (lo, hi), with margin
            if lvl == 0:
                sem = (abs(log2) + float(rng.choice([1e-6, 0.1, 1.0]))) / 1.96
            else:
                sem = max(0.0, (abs(log2) - 1e-6) * float(rng.uniform(0, 0.99))) / 1.96
            w = float(rng.choice([0.0, 0.0, 0.2, 1.0, 3.7])) if rng.random() < 0.5 else float(rng.uniform(0.01, 5))
            for k, v in (("chromosome", c), ("start", pos), ("end", pos + ln), ("gene", str(rng.choice(["A", "B", "-", "A,B"]))), ("log2", log2),
                         ("probes", int(rng.integers(1, 200))), ("weight", w), ("ci_lo", lo), ("ci_hi", hi), ("sem", sem), ("cn", cn),
                         ("cn1", a1), ("cn2", cn - a1), ("depth", float(rng.uniform(0, 300)))):
                cols[k].append(v)
            pos += ln
    return cols


def _n(tier):
    return 320 if tier == "quick" else 5000


def case_table(run, i):
    import cnvlib.segfilters as F
    import cnvlib.call as C
    rng = run.rng("table", i)
    cols = _table(rng)
    variant = i % 4
    keep = ["chromosome", "start", "end", "gene", "log2", "weight", "ci_lo", "ci_hi", "sem", "depth"]
    if variant != 1:
        keep.append("probes")
    direct = dict((k, cols[k]) for k in keep + ["cn"] + (["cn1", "cn2"] if variant >= 2 else []))
    if variant == 3:
        # missing allele-specific cn on some rows
        m = rng.random(len(cols["cn1"])) < 0.2
        direct["cn1"] = np.where(m, np.nan, np.array(cols["cn1"], float))
        direct["cn2"] = np.where(m, np.nan, np.array(cols["cn2"], float))
    n = len(cols["start"])
    index = None
    if i % 3 == 0 and n > 1:
        index = np.arange(n) * 2 + 5          # non-default (unique) row labels, as on a filtered array
    run.begin_case("table", i, cls=f"table:v{variant}" + (":reindexed" if index is not None else ""))
    seg = make_cna(direct, index=index)
    for filt in ("cn", "ci", "sem", "ampdel"):
        try:
            getattr(F, filt)(seg)
        except Exception:
            pass
    # chains of filters applied directly, each on the table the previous one returned (merged runs carry summary cn values,
    # e.g. the weighted median of unequal cn after ampdel, which the next filter must still treat as levels)
    for a, b in (("ampdel", "cn"), ("cn", "ampdel"), ("ci", "cn"), ("sem", "ampdel"), ("ci", "ampdel"), ("sem", "cn"))[i % 6: i % 6 + 3]:
        try:
            r1 = getattr(F, a)(seg)
            getattr(F, b)(r1)
        except Exception:
            pass
    # through do_call: log2 decides cn there (the cn columns are recomputed), so give log2 a copy-number-like spread
    call_cols = dict((k, cols[k]) for k in keep)
    if variant >= 2:
        call_cols["baf"] = np.where(rng.random(n) < 0.2, np.nan, rng.uniform(0, 1, n))
    cseg = make_cna(call_cols, index=index)
    for _ in range(2 if run.tier == "quick" else 4):
        flt = FILTER_LISTS[int(rng.integers(0, len(FILTER_LISTS)))]
        method = str(rng.choice(["threshold", "clonal", "none"]))
        if method == "none" and any(f in ("cn", "ampdel") for f in flt):
            method = "threshold"
        try:
            C.do_call(cseg, None, method, 2, None, False, False, None, list(flt))
        except Exception:
            pass
    run.end_case(fp=rt.fingerprint(direct, 12), nontrivial=n > 1, sample={"chromosome": cols["chromosome"][:5], "cn": cols["cn"][:5], "ci_lo": cols["ci_lo"][:5]} if i % 101 == 0 else None)


def _n_cli(tier):
    return 40 if tier == "quick" else 300


def case_cli(run, i):
    """`cnvkit.py call --filter ...` on a written .cns: the filter list reaches do_call in the order given (also with -m none on an
    already-called table), and the file written is the table returned; the filters themselves are judged by their own monitors."""
    import os
    import shutil
    from skgenome import tabio
    from ..monitors import cli_plumb
    rng = run.rng("cli", i)
    cols = _table(rng)
    flt = list(FILTER_LISTS[int(rng.integers(0, len(FILTER_LISTS)))])
    method = ["threshold", "clonal", "none"][i % 3]
    keep = ["chromosome", "start", "end", "gene", "log2", "probes", "weight", "ci_lo", "ci_hi", "sem", "depth"]
    if method == "none":
        keep.append("cn")          # -m none on a table that already carries calls: cn-based filters must still run
    use = {k: cols[k] for k in keep}
    d = os.path.join(run.workdir, f"cli14_{run.shard}_{i}")
    os.makedirs(d, exist_ok=True)
    inf, outf = os.path.join(d, "S.cns"), os.path.join(d, "S.call.cns")
    with run.monitor_scope():
        tabio.write(make_cna(use), inf)
    argv = ["call", inf, "-m", method, "-o", outf]
    for f in flt:
        argv += ["--filter", f]
    expect = dict(method=method, ploidy=2, purity=None, male_ref=False, female=None, par=None, filters=flt, thresholds=None, center_at=None)
    run.begin_case("cli", i, cls=f"cli:call:{method}:" + "+".join(flt))
    cli_plumb.check_call_cli(run, rt, inf, outf, argv, expect, [float("%.6g" % v) for v in cols["log2"]])
    shutil.rmtree(d, ignore_errors=True)
    run.end_case(fp=rt.fingerprint([cols["cn"][:20], flt, method], 12), nontrivial=True)


WORKLOADS = {"table": (_n, case_table), "cli": (_n_cli, case_cli)}
_Q = {f"segfilters.{f}|held": 300 for f in ("cn", "ci", "sem", "ampdel")}
_Q["call.do_call[filter-order]|held"] = 300
_Q["cli.call[plumbing]|held"] = 30
QUOTAS = {"quick": _Q, "thorough": _Q}
