"""C09 — coverage reports mean per-base depth of the counted reads in every
bin.  Synthetic BAMs (pysam writer, JSON side-car with the read list) x BED
files; see monitors/covmon.py."""
import csv
import json
import os
import shutil

import numpy as np

from .. import runtime as rt
from ..monitors import covmon
from ..synth import bam as SB

TITLE = "coverage reports mean per-base depth of the counted reads in every bin"
RULE = ("synthetic coordinate-sorted indexed BAMs (1-3 contigs of 0.5-5 kb, 0..5000 reads of 30..150 aligned bases, soft clips, all 16 combinations of "
        "unmapped/secondary/QC-fail/duplicate plus reverse/supplementary, MAPQ in {0,1,5,10,20,30,60}, reads piled at bin edges, at contig start and end; "
        "with and without indels) x BED files (3, 4 or 6 columns; abutting, overlapping, duplicated, zero-width and off-contig-end bins; 1..400 lines) x "
        "MAPQ cut-offs {0,1,5,10,20,30,31,60} x {pileup, count} x processes {1,2,3,16} x chunk sizes {7,50,5000}. Distinct by (BAM, BED) fingerprint; "
        "non-trivial when some bin has coverage.")
ASSUMPTIONS = [
    "the oracle counts the aligned (M) bases of reads that are not unmapped/secondary/QC-fail/duplicate and have MAPQ >= cut-off; supplementary and reverse-strand reads count",
    "pileup (samtools bedcov) is compared with the oracle only on BAMs without indels, as the statement says; the count algorithm on all",
    "bins lie on contigs of the BAM (a BED naming an unknown contig is a documented error); bin length is end - start as written in the BED, also for bins hanging over the contig end",
    "zero-width bins are only given to the pileup algorithm (the BED reader used by --count is C08's subject)",
    "CRAM / --fasta are not driven",
]
BUDGET_S = {"quick": 600, "thorough": 2400}
HASHSEEDS = ["0", "3", "11", "42"]
CUTOFFS = [0, 1, 5, 10, 20, 30, 31, 60]


def setup(run):
    return covmon.attach_all(run, rt)


def gen_bed(rng, contigs, ncols, zero_width):
    rows = []
    for name, L in contigs:
        pos = int(rng.integers(0, max(1, L // 10)))
        while pos < L and len(rows) < 400:
            w = int(rng.choice([1, 5, 30, 100, 250, 700])) if rng.random() < 0.5 else int(rng.integers(1, 400))
            kind = rng.random()
            if kind < 0.55:
                s = pos                                            # abutting
            elif kind < 0.75:
                s = pos + int(rng.integers(1, 200))                # gap
            elif kind < 0.9:
                s = max(0, pos - int(rng.integers(1, 60)))         # overlapping the previous bin
            else:
                s = max(0, pos - w) if rows else pos               # duplicate-ish / nested
            e = s + w
            rows.append((name, s, e))
            if rng.random() < 0.04:
                rows.append((name, s, e))                          # exact duplicate line
            if zero_width and rng.random() < 0.03:
                rows.append((name, e, e))
            pos = max(pos, e)
        if rng.random() < 0.6:
            rows.append((name, max(0, L - int(rng.integers(1, 120))), L + int(rng.integers(1, 300))))   # hangs over the contig end
        if rng.random() < 0.3:
            rows.append((name, L, L + 50) if rng.random() < 0.5 else (name, L + 10, L + 90))            # entirely past the end
    out = []
    # one file in five names its bins the way probe tables and R exports do: numeric-looking IDs and the words a parser may take for "missing"
    odd_names = rng.random() < 0.2
    for i, (c, s, e) in enumerate(rows):
        f = [c, str(s), str(e)]
        if ncols >= 4 and odd_names:
            f.append(str(rng.choice(["007", "12", "1e5", "0x1F", "NA", "null", "None", "nan", "N/A", "1.50", "-", "TRUE"])))
        elif ncols >= 4:
            f.append(str(rng.choice(["TP53 exon 2", "a b", "x  y"])) if rng.random() < 0.08 else f"G{i // 3}" if rng.random() < 0.9 else "-")
        if ncols >= 6:
            f += [str(int(rng.integers(0, 1000))), str(rng.choice(["+", "-"]))]
        out.append(f)
    return out


def _n(tier):
    return 96 if tier == "quick" else 800


def case_bam(run, i):
    import cnvlib.coverage as C
    rng = run.rng("bam", i)
    ncont = int(rng.integers(1, 4))
    # contig naming: UCSC, Ensembl (all digits), and a BAM whose first contig is not a number while later ones are
    style = (i // 2) % 3
    names = [[f"chr{k + 1}" for k in range(3)], ["1", "2", "10"], ["X", "7", "12"]][style]
    contigs = [(names[k], int(rng.integers(500, 5001))) for k in range(ncont)]
    indels = i % 4 == 3
    ncols = [3, 4, 6][i % 3]
    zero_width = i % 5 == 0 and not indels
    bed = gen_bed(rng, contigs, ncols, zero_width)
    hot = [int(f[1]) for f in bed] + [int(f[2]) for f in bed]
    r = rng.random()
    n_reads = 0 if r < 0.04 else int(rng.integers(1, 60)) if r < 0.2 else int(rng.integers(60, 5001 if run.tier != "quick" or r > 0.9 else 1500))
    reads = SB.gen_reads(rng, contigs, n_reads, indels=indels, hot=hot)
    d = os.path.join(run.workdir, f"bam{run.shard}_{i}")
    os.makedirs(d, exist_ok=True)
    bam, bedp = os.path.join(d, "S.bam"), os.path.join(d, "regions.bed")
    with run.monitor_scope():
        SB.write_bam(bam, contigs, reads)
    with open(bam + ".truth.json", "w") as fh:
        json.dump({"contigs": contigs, "reads": reads, "indels": indels}, fh)
    with open(bedp, "w") as fh:
        for f in bed:
            fh.write("\t".join(f) + "\n")
    run.begin_case("bam", i, cls=f"bam:{'indels' if indels else 'plain'}:bed{ncols}" + (":zero-width" if zero_width else "") + (":no-reads" if not n_reads else ""),
                   contigs=contigs, n_reads=n_reads, n_bed=len(bed))
    cut = [CUTOFFS[int(rng.integers(0, len(CUTOFFS)))], 0 if rng.random() < 0.5 else CUTOFFS[int(rng.integers(0, len(CUTOFFS)))]]
    algos = [True] if indels else [False, True]
    if zero_width:
        algos = [False]
    configs = [(1, 5000), (2, 7), (3, 50), (16, 7), (2, 5000)]
    if run.tier == "quick":
        configs = [configs[0]] + [configs[1 + (i + k) % 4] for k in range(2)]
    for by_count in algos:
        for q in sorted(set(cut)):
            for procs, chunk in configs:
                covmon.CHUNK["size"] = chunk
                run.case["config"] = {"by_count": by_count, "min_mapq": q, "processes": procs, "chunk_size": chunk}
                try:
                    C.do_coverage(bedp, bam, by_count, q, procs)
                except Exception:
                    pass
    covmon.CHUNK["size"] = 5000
    run.__dict__.get("_cov_hist", {}).clear()
    shutil.rmtree(d, ignore_errors=True)
    run.end_case(fp=rt.fingerprint([contigs, n_reads, bed[:30], [(r_["pos"], r_["flag"]) for r_ in reads[:40]]], 12), nontrivial=n_reads > 0,
                 sample={"contigs": contigs, "n_reads": n_reads, "bed_head": bed[:4], "reads_head": reads[:2]} if i % 23 == 0 else None)


def _n_wide(tier):
    return 16 if tier == "quick" else 120


def case_wide(run, i):
    """A chromosome-sized, thinly covered contig with bins from one base to tens of megabases: depths far below one read per
    million bases are still depths (log2 below -20), only a bin no counted read overlaps is the null value."""
    import cnvlib.coverage as C
    rng = run.rng("wide", i)
    style = i % 3
    wide = int(rng.integers(120_000_000, 250_000_000))      # human chromosome sized: one read in a whole-chromosome bin is a depth below 2^-20
    contigs = [(["chr1", "1", "X"][style], wide), (["chr2", "2", "7"][style], int(rng.integers(800, 3000)))]
    n_wide, n_short = int(rng.choice([1, 1, 2, 3, 30])), int(rng.integers(0, 300))
    reads = SB.gen_reads(rng, [contigs[0]], n_wide, indels=False) + [dict(r, tid=1) for r in SB.gen_reads(rng, [contigs[1]], n_short, indels=False)]
    reads.sort(key=lambda r: (r["tid"], r["pos"]))
    rows = [(contigs[0][0], 0, wide), (contigs[0][0], 0, wide // 2), (contigs[0][0], wide // 2, wide)]
    for _ in range(int(rng.integers(3, 12))):
        s = int(rng.integers(0, wide - 1))
        rows.append((contigs[0][0], s, min(wide, s + int(rng.choice([1, 100, 10_000, 1_500_000, 40_000_000, 110_000_000])))))
    for r in reads[: 5]:
        if r["tid"] == 0:
            rows.append((contigs[0][0], max(0, r["pos"] - 3_000_000), min(wide, r["pos"] + 3_000_000)))     # a wide bin around a lone read
    rows.sort(key=lambda t: (t[1], t[2]))
    rows += [(contigs[1][0], 0, contigs[1][1]), (contigs[1][0], 10, 200)]
    ncols = [3, 4][i % 2]
    bed = [[c, str(s), str(e)] + ([f"W{k}"] if ncols == 4 else []) for k, (c, s, e) in enumerate(rows)]
    d = os.path.join(run.workdir, f"wide{run.shard}_{i}")
    os.makedirs(d, exist_ok=True)
    bam, bedp = os.path.join(d, "S.bam"), os.path.join(d, "regions.bed")
    with run.monitor_scope():
        SB.write_bam(bam, contigs, reads)
    with open(bam + ".truth.json", "w") as fh:
        json.dump({"contigs": contigs, "reads": reads, "indels": False}, fh)
    with open(bedp, "w") as fh:
        for f in bed:
            fh.write("\t".join(f) + "\n")
    run.begin_case("wide", i, cls="wide", contigs=contigs, n_reads=len(reads), n_bed=len(bed))
    for by_count in (False, True):
        for q in (0, int(rng.choice(CUTOFFS))):
            for procs, chunk in ((1, 5000), (2, 4)):
                covmon.CHUNK["size"] = chunk
                run.case["config"] = {"by_count": by_count, "min_mapq": q, "processes": procs, "chunk_size": chunk}
                try:
                    C.do_coverage(bedp, bam, by_count, q, procs)
                except Exception:
                    pass
    covmon.CHUNK["size"] = 5000
    run.__dict__.get("_cov_hist", {}).clear()
    shutil.rmtree(d, ignore_errors=True)
    run.end_case(fp=rt.fingerprint([contigs, rows[:20], [(r_["pos"], r_["flag"]) for r_ in reads[:40]]], 12), nontrivial=bool(reads))


def _n_cli(tier):
    return 8 if tier == "quick" else 60


def case_cli(run, i):
    from cnvlib import commands
    rng = run.rng("cli", i)
    contigs = [(f"chr{k + 1}", int(rng.integers(800, 4001))) for k in range(int(rng.integers(1, 4)))]
    bed = gen_bed(rng, contigs, 4, False)
    reads = SB.gen_reads(rng, contigs, int(rng.integers(50, 2000)), indels=False, hot=[int(f[1]) for f in bed])
    d = os.path.join(run.workdir, f"clicov{run.shard}_{i}")
    os.makedirs(d, exist_ok=True)
    bam, bedp, out = os.path.join(d, "S.bam"), os.path.join(d, "regions.bed"), os.path.join(d, "S.targetcoverage.cnn")
    with run.monitor_scope():
        SB.write_bam(bam, contigs, reads)
    with open(bam + ".truth.json", "w") as fh:
        json.dump({"contigs": contigs, "reads": reads, "indels": False}, fh)
    with open(bedp, "w") as fh:
        for f in bed:
            fh.write("\t".join(f) + "\n")
    q = [0, 10, 30][i % 3]
    argv = ["coverage", bam, bedp, "-o", out, "-q", str(q), "-p", str([1, 2, 4][i % 3])] + (["-c"] if i % 2 else [])
    run.begin_case("cli", i, cls="cli:" + ("count" if i % 2 else "pileup"), argv=argv[3:])
    covmon.CHUNK["size"] = [5000, 7, 50][i % 3]
    import cnvlib.coverage as CV
    from ..monitors import cli_plumb
    r = cli_plumb.check_cli(run, rt, CV, "do_coverage", argv, dict(bed_fname=bedp, bam_fname=bam, by_count=bool(i % 2), min_mapq=q, processes=[1, 2, 4][i % 3], fasta=None), "coverage")
    if r is not None:
        cli_plumb.held(run, "coverage", "cli-coverage")
    covmon.CHUNK["size"] = 5000
    mon = "cli.coverage[file]"
    if os.path.exists(out):
        with open(out) as fh:
            rows = list(csv.DictReader(fh, delimiter="\t"))
        exp = dict(zip([(f[0], int(f[1]), int(f[2]), f[3]) for f in bed], covmon.expected_rows({"contigs": contigs, "reads": reads}, [(f[0], int(f[1]), int(f[2]), f[3]) for f in bed], q)))
        bad = None
        for r in rows:
            k = (r["chromosome"], int(r["start"]), int(r["end"]), r["gene"])
            if k not in exp:
                bad = ("cnn-row-not-a-bed-line", f"row {k}")
                break
            e = exp[k]
            if abs(float(r["depth"]) - e[0]) > 1e-5 * abs(e[0]) + 1e-12 or abs(float(r["log2"]) - e[1]) > 1e-5 * abs(e[1]) + 1e-12:
                bad = ("cnn-file-depth-wrong", f"row {k}: depth {r['depth']} log2 {r['log2']}, expected {e}")
                break
        if bad is None and len(rows) != len(bed):
            bad = ("cnn-row-count", f"{len(rows)} rows for {len(bed)} BED lines")
        if bad:
            run.violate(mon, bad[0], bad[1], {"argv": argv[3:], "bed": bed[:40]})
        else:
            run.held(mon, "cli-file")
    else:
        run.ood(mon, "no-output-file")
    run.__dict__.get("_cov_hist", {}).clear()
    shutil.rmtree(d, ignore_errors=True)
    run.end_case(fp=rt.fingerprint([contigs, bed[:20], argv[3:]], 12), nontrivial=True)


WORKLOADS = {"bam": (_n, case_bam), "wide": (_n_wide, case_wide), "cli": (_n_cli, case_cli)}
_Q = {"coverage.do_coverage|held": 250, "coverage.do_coverage[same-table-any-schedule]|held": 150, "extra:bins-with-coverage:pileup": 2000,
      "extra:bins-with-coverage:count": 2000, "extra:calls-with-several-chunks": 40, "extra:calls-completing-out-of-submission-order": 5,
      "cli.coverage[file]|held": 5, "cli.coverage[plumbing]|held": 5, "extra:bins-covered-below-2^-20:pileup": 5, "extra:bins-covered-below-2^-20:count": 5}
QUOTAS = {"quick": _Q, "thorough": {k: v * 8 for k, v in _Q.items()}}
# the chunk-size override and the delays sit on internals (coverage.to_chunks, _bedcov, _rdc); on a tree that splits and dispatches the regions by
# another route the schedule-evidence quotas are waived and the clause is decided by the same-table-for-every-worker-count monitor alone
_SCHED = ["extra:calls-with-several-chunks", "extra:calls-completing-out-of-submission-order"]
QUOTA_WAIVERS = {k: {"waive": _SCHED, "require": {"coverage.do_coverage[same-table-any-schedule]|held": 150}}
                 for k in ("injection-unavailable:coverage.to_chunks", "injection-unavailable:coverage._bedcov", "injection-unavailable:coverage._rdc")}


def evidence_extra(m, tier):
    return {"schedules": {
        "processes_requested": [1, 2, 3, 16], "chunk_sizes": [7, 50, 5000],
        "chunks_per_call_observed": sorted(m["sets"].get("chunks_per_call", []), key=int)[:40],
        "distinct_worker_pid_counts_observed": sorted(m["sets"].get("worker_pids_per_call", [])),
        "calls_with_several_chunks": m["extra"].get("calls-with-several-chunks", 0),
        "calls_completing_out_of_submission_order": m["extra"].get("calls-completing-out-of-submission-order", 0),
        "distinct_completion_orders_observed": len(m["sets"].get("completion_orders", [])),
    }}
