"""C06 — interval arithmetic (merge/flatten/subtract/intersect/subdivide/resize)
is base-exact.  Monitors on the GenomicArray methods (vmon/monitors/ga_algebra)
judge every call against a plain-tuple base-set model; the workloads are the
exhaustive small scope the property names, plus a biased random grammar.
"""
from .. import runtime as rt
from ..gen import make_ga, multisets, small_intervals, random_intervals, with_extras
from ..monitors import ga_algebra

TITLE = "Interval arithmetic is base-exact"
RULE = ("small_scope: every ordered pair (A,B) of multisets of positive-length intervals (quick: <=2 x <=2 over 0..4; "
        "thorough: <=2 x <=3 over 0..6) x 8 variants {second chromosome on neither/a/b/both} x {gene column or not}; "
        "binary ops (subtract, intersection trim) per pair, unary ops (merge bp in -2..2, flatten, subdivide, resize, "
        "total_range_size) once per left operand; random: grammar-generated sorted tables <=40 rows, coordinates to 1e6 "
        "(duplicates, abutting, overlapping, nested, chains, one-sided chromosomes, extra columns). A case is distinct by "
        "the fingerprint of its input tables and parameters; non-trivial when at least one operand is non-empty.")
ASSUMPTIONS = [
    "inputs are sorted tables of positive-length intervals (the library's documented precondition); other calls are counted out-of-domain",
    "at exact .5 ties of length/avg either rounding (Python round or half-up) is accepted for subdivide",
    "merge(bp != 0) is judged against the documented grouping rule (join while next.start - running max end <= -bp)",
]
BUDGET_S = {"quick": 240, "thorough": 1500}

_SCOPE = {}


def _scope(tier):
    if tier not in _SCOPE:
        if tier == "quick":
            iv = small_intervals(4)
            _SCOPE[tier] = (multisets(iv, 2), multisets(iv, 2))
        else:
            iv = small_intervals(6)
            _SCOPE[tier] = (multisets(iv, 2), multisets(iv, 3))
    return _SCOPE[tier]


VARIANTS = [(second, gene) for gene in (False, True) for second in ("none", "a", "b", "both")]


def _n_small(tier):
    A, B = _scope(tier)
    return len(A) * len(B) * len(VARIANTS)


def setup(run):
    return ga_algebra.attach_all(run, rt)


def _tables(A, B, second, gene):
    a = [("chr1", s, e) for s, e in A]
    b = [("chr1", s, e) for s, e in B]
    if second in ("a", "both"):
        a.append(("chr2", 1, 3))
    if second in ("b", "both"):
        b += [("chr2", 2, 4)] if second == "both" else [("chr2", 1, 3)]
    ex = ()
    if gene:
        a = [r + ("g%d" % (i % 2),) for i, r in enumerate(a)]
        b = [r + ("h%d" % i,) for i, r in enumerate(b)]
        ex = ("gene",)
    return a, b, ex


def _safe(fn, *a, **k):
    try:
        return fn(*a, **k)
    except Exception:
        return None  # judged by the monitor's on_exc / counted as raised


def case_small(run, i):
    A, B = _scope(run.tier)
    nv = len(VARIANTS)
    v = i % nv
    j = i // nv
    ia, ib = j // len(B), j % len(B)
    second, gene = VARIANTS[v]
    if run.tier == "thorough" and v != 0:
        # the multi-chromosome / gene variants are sampled at 10% in the thorough scope
        if run.rng("small-sample", i).random() > 0.10:
            return
    a_rows, b_rows, ex = _tables(A[ia], B[ib], second, gene)
    run.begin_case("small_scope", i, cls=f"small:{second}:{'gene' if gene else 'plain'}")
    a, b = make_ga(a_rows, ex), make_ga(b_rows, ex)
    _safe(a.subtract, b)
    _safe(a.intersection, b, mode="trim")
    if ib == 0:
        for bp in (-2, -1, 0, 1, 2):
            _safe(a.merge, bp=bp)
        _safe(a.flatten)
        for avg, mn in ((1, 0), (2, 0), (2, 2), (3, 1), (4, 3)):
            _safe(a.subdivide, avg, mn)
        for bp in (-2, -1, 0, 1, 3):
            _safe(a.resize_ranges, bp)
            _safe(a.resize_ranges, bp, {"chr1": 7, "chr2": 5})
        _safe(a.total_range_size)
    run.end_case(fp=f"s{i}", nontrivial=bool(a_rows or b_rows),
                 sample={"a": a_rows, "b": b_rows} if i % 997 == 0 else None)


def _n_random(tier):
    return 800 if tier == "quick" else 40000


def case_random(run, i):
    rng = run.rng("random", i)
    chroms_all = ["chr1", "chr2", "chrX", "chr5_alt"][: int(rng.integers(1, 5))]
    ca = [c for c in chroms_all if rng.random() < 0.8] or chroms_all[:1]
    cb = [c for c in chroms_all if rng.random() < 0.8] or chroms_all[:1]
    n = int(rng.integers(1, 41))
    maxc = int(rng.choice([30, 1000, 10**6]))
    extras = tuple(c for c in ("gene", "strand", "weight", "probes") if rng.random() < 0.5)
    a_rows = with_extras(rng, random_intervals(rng, n, maxc, ca), extras)
    b_rows = with_extras(rng, random_intervals(rng, int(rng.integers(0, 41)), maxc, cb), extras)
    run.begin_case("random", i, cls="random")
    a, b = make_ga(a_rows, extras), make_ga(b_rows, extras)
    _safe(a.subtract, b)
    _safe(b.subtract, a)
    _safe(a.intersection, b, mode="trim")
    _safe(a.merge, bp=int(rng.choice([-3, -1, 0, 0, 1, 2, 5])))
    _safe(a.merge)
    _safe(a.flatten)
    span = max([r[2] - r[1] for r in a_rows] + [1])
    avg = int(rng.choice([1, 2, 3, 7, max(1, span // 3), max(1, span // 2), span, 10**5]))
    mn = int(rng.integers(0, avg + 1))
    _safe(a.subdivide, avg, mn)
    bp = int(rng.choice([-2000, -50, -3, -1, 0, 1, 7, 500, 2000]))
    if rng.random() < 0.5:
        sizes = {c: max([r[2] for r in a_rows if r[0] == c] + [1]) + int(rng.integers(0, 600)) for c in chroms_all}
        _safe(a.resize_ranges, bp, sizes)
    else:
        _safe(a.resize_ranges, bp)
    _safe(a.total_range_size)
    run.end_case(fp=rt.fingerprint([a_rows, b_rows, avg, mn, bp], 12), nontrivial=bool(a_rows),
                 sample={"a": a_rows[:8], "b": b_rows[:8], "avg": avg, "min": mn, "bp": bp} if i % 499 == 0 else None)


WORKLOADS = {
    "small_scope": (_n_small, case_small),
    "random": (_n_random, case_random),
}

_Q = {
    "GenomicArray.merge|held": 300, "GenomicArray.flatten|held": 60, "GenomicArray.subtract|held": 2000,
    "GenomicArray.intersection[cover]|held": 2000, "GenomicArray.subdivide|held": 300,
    "GenomicArray.resize_ranges|held": 300, "GenomicArray.total_range_size|held": 60,
}
QUOTAS = {"quick": _Q, "thorough": _Q}


def evidence_extra(m, tier):
    A, B = _scope(tier)
    return {"exhaustive_scope": {"left_multisets": len(A), "right_multisets": len(B), "variants": len(VARIANTS),
                                 "note": "quick: all pairs x all variants enumerated; thorough: all pairs of variant 0, 10% sample of the other variants"}}
