"""C06 — interval arithmetic (merge/flatten/subtract/intersect/subdivide/resize)
is base-exact.  Monitors on the GenomicArray methods (vmon/monitors/ga_algebra)
judge every call against a plain-tuple base-set model; the workloads are the
exhaustive small scope the property names, plus a biased random grammar.
"""
from .. import runtime as rt
from ..gen import make_ga, multisets, small_intervals, random_intervals, with_extras
from ..monitors import ga_algebra

TITLE = "Interval arithmetic is base-exact"
RULE = ("small_scope: every ordered pair (A,B) of multisets of positive-length intervals (quick: <=2 x <=2 over 0..4; "
        "thorough: <=2 x <=3 over 0..6) x 8 variants {second chromosome on neither/a/b/both} x {gene column or not}; "
        "binary ops (subtract, intersection trim) per pair, unary ops (merge bp in -2..2, flatten, subdivide, resize, "
        "total_range_size) once per left operand; random: grammar-generated sorted tables <=40 rows, coordinates to 1e6 "
        "(duplicates, abutting, overlapping, nested, chains, one-sided chromosomes, extra columns). A case is distinct by "
        "the fingerprint of its input tables and parameters; non-trivial when at least one operand is non-empty.")
ASSUMPTIONS = [
    "inputs are sorted tables of positive-length intervals (the library's documented precondition); other calls are counted out-of-domain",
    "round(length/avg) is read literally as Python's round: an exact .5 tie goes to the even neighbour (2.5 -> 2, 3.5 -> 4)",
    "merge(bp != 0) is judged against the documented grouping rule (join while next.start - running max end <= -bp)",
]
BUDGET_S = {"quick": 900, "thorough": 7200}

_SCOPE = {}


def _scope(tier):
    if tier not in _SCOPE:
        if tier == "quick":
            iv = small_intervals(4)
            _SCOPE[tier] = (multisets(iv, 2), multisets(iv, 2))
        else:
            iv = small_intervals(6)
            _SCOPE[tier] = (multisets(iv, 2), multisets(iv, 3))
    return _SCOPE[tier]


VARIANTS = [(second, gene) for gene in (False, True) for second in ("none", "a", "b", "both")]


def _n_small(tier):
    A, B = _scope(tier)
    return len(A) * len(B) * len(VARIANTS)


def setup(run):
    return ga_algebra.attach_all(run, rt)


def _tables(A, B, second, gene):
    a = [("chr1", s, e) for s, e in A]
    b = [("chr1", s, e) for s, e in B]
    if second in ("a", "both"):
        a.append(("chr2", 1, 3))
    if second in ("b", "both"):
        b += [("chr2", 2, 4)] if second == "both" else [("chr2", 1, 3)]
    ex = ()
    if gene:
        a = [r + ("g%d" % (i % 2),) for i, r in enumerate(a)]
        b = [r + ("h%d" % i,) for i, r in enumerate(b)]
        ex = ("gene",)
    return a, b, ex


def _safe(fn, *a, **k):
    try:
        return fn(*a, **k)
    except Exception:
        return None  # judged by the monitor's on_exc / counted as raised


def case_small(run, i):
    A, B = _scope(run.tier)
    nv = len(VARIANTS)
    v = i % nv
    j = i // nv
    ia, ib = j // len(B), j % len(B)
    second, gene = VARIANTS[v]
    if run.tier == "thorough" and v != 0:
        # the multi-chromosome / gene variants are sampled at 10% in the thorough scope
        if run.rng("small-sample", i).random() > 0.10:
            return
    a_rows, b_rows, ex = _tables(A[ia], B[ib], second, gene)
    run.begin_case("small_scope", i, cls=f"small:{second}:{'gene' if gene else 'plain'}")
    a, b = make_ga(a_rows, ex), make_ga(b_rows, ex)
    _safe(a.subtract, b)
    _safe(a.intersection, b, mode="trim")
    if ib == 0:
        for bp in (-2, -1, 0, 1, 2):
            _safe(a.merge, bp=bp)
        _safe(a.flatten)
        for avg, mn in ((1, 0), (2, 0), (2, 2), (3, 1), (4, 3)):
            _safe(a.subdivide, avg, mn)
        for bp in (-2, -1, 0, 1, 3):
            _safe(a.resize_ranges, bp)
            _safe(a.resize_ranges, bp, {"chr1": 7, "chr2": 5})
        _safe(a.total_range_size)
    run.end_case(fp=f"s{i}", nontrivial=bool(a_rows or b_rows),
                 sample={"a": a_rows, "b": b_rows} if i % 997 == 0 else None)


def _n_random(tier):
    return 800 if tier == "quick" else 40000


def case_random(run, i):
    rng = run.rng("random", i)
    chroms_all = ["chr1", "chr2", "chrX", "chr5_alt"][: int(rng.integers(1, 5))]
    ca = [c for c in chroms_all if rng.random() < 0.8] or chroms_all[:1]
    cb = [c for c in chroms_all if rng.random() < 0.8] or chroms_all[:1]
    n = int(rng.integers(1, 41))
    maxc = int(rng.choice([30, 1000, 10**6]))
    extras = tuple(c for c in ("gene", "strand", "weight", "probes") if rng.random() < 0.5)
    a_rows = with_extras(rng, random_intervals(rng, n, maxc, ca), extras)
    b_rows = with_extras(rng, random_intervals(rng, int(rng.integers(0, 41)), maxc, cb), extras)
    run.begin_case("random", i, cls="random")
    a, b = make_ga(a_rows, extras), make_ga(b_rows, extras)
    _safe(a.subtract, b)
    _safe(b.subtract, a)
    _safe(a.intersection, b, mode="trim")
    _safe(a.merge, bp=int(rng.choice([-3, -1, 0, 0, 1, 2, 5])))
    _safe(a.merge)
    _safe(a.flatten)
    span = max([r[2] - r[1] for r in a_rows] + [1])
    avg = int(rng.choice([1, 2, 3, 7, max(1, span // 3), max(1, span // 2), span, 10**5]))
    mn = int(rng.integers(0, avg + 1))
    _safe(a.subdivide, avg, mn)
    bp = int(rng.choice([-2000, -50, -3, -1, 0, 1, 7, 500, 2000]))
    if rng.random() < 0.5:
        sizes = {c: max([r[2] for r in a_rows if r[0] == c] + [1]) + int(rng.integers(0, 600)) for c in chroms_all}
        _safe(a.resize_ranges, bp, sizes)
    else:
        _safe(a.resize_ranges, bp)
    _safe(a.total_range_size)
    run.end_case(fp=rt.fingerprint([a_rows, b_rows, avg, mn, bp], 12), nontrivial=bool(a_rows),
                 sample={"a": a_rows[:8], "b": b_rows[:8], "avg": avg, "min": mn, "bp": bp} if i % 499 == 0 else None)


def _n_ties(tier):
    return 160 if tier == "quick" else 4000


def case_ties(run, i):
    """Regions whose length is exactly (k + 1/2) * avg -- single rows, and rows
    that only reach that length after merging (abutting / overlapping / nested)."""
    rng = run.rng("ties", i)
    avg = 2 * int(rng.choice([1, 1, 2, 3, 25, 50, 500, 4321]))
    rows, pos = [], int(rng.integers(0, 50))
    for _ in range(int(rng.integers(1, 7))):
        k = int(rng.integers(0, 9))
        span = k * avg + avg // 2 if rng.random() < 0.8 else int(rng.integers(1, 9 * avg))
        s, e = pos, pos + span
        shape = int(rng.integers(0, 4))
        if shape == 0 or span < 3:
            rows.append(("chr1", s, e))
        elif shape == 1:      # two abutting rows
            m = int(rng.integers(s + 1, e))
            rows += [("chr1", s, m), ("chr1", m, e)]
        elif shape == 2:      # overlapping rows
            m1, m2 = sorted(int(x) for x in rng.integers(s + 1, e, 2))
            rows += [("chr1", s, m2), ("chr1", m1, e)]
        else:                 # nested row
            m1, m2 = sorted(int(x) for x in rng.integers(s, e + 1, 2))
            rows += [("chr1", s, e)] + ([("chr1", m1, m2)] if m2 > m1 else [])
        pos = e + int(rng.integers(1, 3 * avg))
    rows.sort()
    run.begin_case("ties", i, cls="ties")
    a = make_ga(rows)
    _safe(a.subdivide, avg, int(rng.choice([0, 1, avg // 2, avg])))
    run.end_case(fp=rt.fingerprint([rows, avg], 12), nontrivial=True, sample={"a": rows, "avg": avg} if i % 97 == 0 else None)


def _n_derived(tier):
    return 480 if tier == "quick" else 12000


def _derive(rng, a, how):
    """A table reached through the library's own selection / combination
    methods (or carrying the caller's row labels), as in a pipeline."""
    import numpy as np
    n = len(a)
    if how == "mask" and n:
        keep = rng.random(n) < 0.7
        if n > 1:
            keep[0] = False
        return a[keep] if keep.any() else a
    if how == "chunk":
        parts = [sub for _c, sub in a.by_chromosome()]
        return parts[-1] if parts else a
    if how == "labels" and n:
        out = a.copy()
        out.data.index = np.asarray(rng.permutation(n)) + int(rng.choice([0, 0, 7, 1000]))
        return out
    if how == "dup-labels" and n:
        out = a.copy()
        out.data.index = np.asarray(rng.integers(0, max(1, n // 2), n))
        return out
    if how == "merged":
        return a.merge()
    if how == "concat" and n:
        return a.concat([a[rng.random(n) < 0.5], a.copy()]) if hasattr(a, "concat") else a
    if how == "filter":
        chroms = list(dict.fromkeys(a.chromosome))
        return a.filter(chromosome=chroms[-1]) if chroms else a
    if how == "in-range" and n:
        c = a.chromosome.iloc[-1]
        return a.in_range(c, int(a.start.min()), int(a.end.max()), mode="outer")
    return a


DERIVATIONS = ("mask", "chunk", "labels", "dup-labels", "merged", "concat", "filter", "in-range")


def case_derived(run, i):
    """The same operations on tables that are the result of earlier operations:
    row labels that are not 0..n-1, per-chromosome chunks, merged/concatenated
    tables.  The monitors compare rows by position, so any dependence on the
    labels shows as a wrong result."""
    rng = run.rng("derived", i)
    chroms_all = ["chr1", "chr2", "chr10", "chrX"][: int(rng.integers(1, 5))]
    maxc = int(rng.choice([30, 1000, 10**6]))
    extras = tuple(c for c in ("gene", "weight") if rng.random() < 0.5)
    a_rows = with_extras(rng, random_intervals(rng, int(rng.integers(2, 41)), maxc, chroms_all), extras)
    b_rows = with_extras(rng, random_intervals(rng, int(rng.integers(0, 41)), maxc, chroms_all), extras)
    how_a, how_b = DERIVATIONS[i % len(DERIVATIONS)], DERIVATIONS[(i // len(DERIVATIONS)) % len(DERIVATIONS)]
    run.begin_case("derived", i, cls=f"derived:{how_a}")
    try:
        a, b = _derive(rng, make_ga(a_rows, extras), how_a), _derive(rng, make_ga(b_rows, extras), how_b)
    except Exception:
        a = b = None
    if a is None:
        return run.end_case(fp=f"d{i}", nontrivial=False)
    _safe(a.subtract, b)
    _safe(a.intersection, b, mode="trim")
    _safe(a.merge, bp=int(rng.choice([-1, 0, 0, 2])))
    _safe(a.flatten)
    span = max([int(x) for x in (a.end - a.start)] + [1])
    avg = int(rng.choice([1, 2, 3, max(1, span // 3), max(1, span // 2), span]))
    _safe(a.subdivide, avg, int(rng.integers(0, avg + 1)))
    bp = int(rng.choice([-2000, -50, -3, -1, 0, 1, 7, 500]))
    sizes = {c: max([r[2] for r in a_rows if r[0] == c] + [1]) + int(rng.integers(0, 600)) for c in chroms_all}
    # distinct sizes per chromosome, so a size taken from another row's chromosome shows
    for k, c in enumerate(chroms_all):
        sizes[c] += 1000 * k * int(rng.integers(0, 3))
    _safe(a.resize_ranges, bp, sizes)
    _safe(a.resize_ranges, bp)
    _safe(a.total_range_size)
    run.end_case(fp=rt.fingerprint([a_rows, b_rows, how_a, how_b, avg, bp], 12), nontrivial=True,
                 sample={"a": a_rows[:8], "how": [how_a, how_b], "avg": avg, "bp": bp} if i % 499 == 0 else None)


WORKLOADS = {
    "small_scope": (_n_small, case_small),
    "random": (_n_random, case_random),
    "ties": (_n_ties, case_ties),
    "derived": (_n_derived, case_derived),
}

_Q = {
    "GenomicArray.merge|held": 300, "GenomicArray.flatten|held": 60, "GenomicArray.subtract|held": 2000,
    "GenomicArray.intersection[cover]|held": 2000, "GenomicArray.subdivide|held": 300,
    "GenomicArray.resize_ranges|held": 300, "GenomicArray.total_range_size|held": 60,
}
QUOTAS = {"quick": _Q, "thorough": _Q}


def evidence_extra(m, tier):
    A, B = _scope(tier)
    return {"exhaustive_scope": {"left_multisets": len(A), "right_multisets": len(B), "variants": len(VARIANTS),
                                 "note": "quick: all pairs x all variants enumerated; thorough: all pairs of variant 0, 10% sample of the other variants"}}
