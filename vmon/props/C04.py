"""C04 — fix subtracts the reference bin-for-bin by coordinate and normalises
soundly.  See monitors/fixmon.py for the oracles."""
import csv
import os
import shutil

import numpy as np
import pandas as pd

from .. import runtime as rt
from ..gen import make_cna
from ..monitors import fixmon

TITLE = "fix subtracts the reference bin-for-bin by coordinate and normalises soundly"
RULE = ("references pooled (random log2/spread, unique gc/rmask) or flat (spread 0, integer log2), with/without gc, rmask, depth columns, bad bins of each "
        "kind (log2 beyond +-5 and exactly +-5, spread > 1 and exactly 1, depth 0, gc outside and exactly on 0.3/0.7) anywhere incl. first/last row; "
        "20..400 target bins of unique sizes 40..1700 bp with gaps around the 250 bp insert size, 0..150 antitarget bins, on 1..5 chromosomes incl. X/Y; "
        "samples over all or a subset of the reference bins, with null-coverage bins, any depth scale; every subset of {gc, edge, rmask}; each call is "
        "re-run by the monitor on copies with each input's rows permuted and with the depth rescaled; refusal cases (missing bin, duplicated coordinates). "
        "Distinct by input fingerprint; non-trivial when >= 2 bins pass the reference filters.")
ASSUMPTIONS = [
    "chromosome names are canonical ((chr)digits, X, Y) with at least one autosome",
    "the half-window of the rolling median is taken from the fraction observed at center_by_window (the statement fixes the operation, not the width); covariate ties make the order depend on the seeded shuffle, such calls are counted out-of-domain for the rolling-median clause only",
    "corrections are documented to be skipped when at most half of a class's bins are covered; cases within one bin of that boundary are out of domain",
    "depth rescaling is asserted on samples without uncovered bins (a bin with depth 0 stays at the null log2 under rescaling, so the rolling medians legitimately move when such bins exist)",
    "centring is judged over autosomal bins with depth > 0; generated covered bins stay > 4 log2 units above the -15 low-coverage cut-off",
    "weight monotonicity is asserted pairwise within the on-target and within the off-target class (weights are defined per class)",
    "clustered references (do_cluster) are not driven",
]
BUDGET_S = {"quick": 600, "thorough": 2400}


def setup(run):
    return fixmon.attach_all(run, rt)


def finalize(run):
    fixmon.finalize(run)


def gen_case(rng, big=False, no_gc=False, empty_anti=False, lone=False, dead_anti=False):
    prefix = "chr" if rng.random() < 0.7 else ""
    pool = ["1", "2", "3", "11", "X", "Y"]
    nchr = int(rng.integers(1, 6))
    idx = sorted(rng.choice(len(pool), nchr, replace=False).tolist())
    names = [pool[i] for i in idx]
    if not any(n.isdigit() for n in names):
        names = ["1"] + names[:-1] if len(names) > 1 else ["1"]
    nt = int(rng.integers(20, 401 if big else 161))
    na = 0 if rng.random() < 0.2 else int(rng.integers(1, 151 if big else 61))
    flat = rng.random() < 0.25
    has_gc = rng.random() < 0.8 and not no_gc
    has_rmask = rng.random() < 0.75
    has_depth = rng.random() < 0.9
    sizes = rng.permutation(np.arange(40, 40 + 4 * nt + 50))[:nt]
    rows = []
    twins = rng.random() < 0.35
    # distribute bins over chromosomes
    tchrom = np.sort(rng.integers(0, len(names), nt))
    if lone and len(names) > 1:
        # one chromosome with exactly one on-target bin (a lone tile has an edge loss but no neighbour)
        k = int(rng.integers(0, len(names)))
        tchrom = np.sort(np.concatenate([tchrom[tchrom != k], [k]]))
        if not (tchrom != k).any():
            tchrom = np.sort(np.concatenate([tchrom, [(k + 1) % len(names)] * 3]))
        sizes = rng.permutation(np.arange(40, 40 + 4 * len(tchrom) + 50))[:len(tchrom)]
        nt = len(tchrom)
    achrom = np.sort(rng.integers(0, len(names), na))
    for ci, nm in enumerate(names):
        pos = int(rng.integers(1000, 50000))
        tt = [int(s) for s, c in zip(sizes, tchrom) if c == ci]
        aa = int((achrom == ci).sum())
        items = ["t"] * len(tt) + ["a"] * aa
        rng.shuffle(items)
        ti = 0
        for it in items:
            if it == "t":
                gap = int(rng.choice([0, 1, 30, 120, 249, 250, 251, 400, 3000])) if rng.random() < 0.6 else int(rng.integers(0, 600))
                pos += gap
                rows.append((prefix + nm, pos, pos + tt[ti], f"G{ci}_{ti // 4}", "t"))
                if twins and rng.random() < 0.04:
                    # a second bait anchored at the same base, longer (nested baits): same chromosome and start, different end
                    rows.append((prefix + nm, pos, pos + tt[ti] + int(rng.integers(5, 40)), f"G{ci}_{ti // 4}", "t"))
                pos += tt[ti]
                ti += 1
            else:
                pos += int(rng.integers(0, 2000))
                ln = int(rng.integers(5000, 150000))
                rows.append((prefix + nm, pos, pos + ln, "Antitarget" if rng.random() < 0.9 else "Background", "a"))
                pos += ln
    n = len(rows)
    ref = pd.DataFrame({"chromosome": [r[0] for r in rows], "start": [r[1] for r in rows], "end": [r[2] for r in rows], "gene": [r[3] for r in rows]})
    kind = np.array([r[4] for r in rows])
    sex = np.array([r[0].replace("chr", "") in ("X", "Y") for r in rows])
    if flat:
        ref["log2"] = np.where(sex, -1.0, 0.0)
        ref["spread"] = 0.0
    else:
        ref["log2"] = np.round(rng.normal(0, 0.6, n) - np.where(sex, 1.0, 0.0), 5)
        ref["spread"] = np.round(np.abs(rng.normal(0.15, 0.15, n)), 5)
    if has_depth:
        ref["depth"] = np.round(np.exp2(ref["log2"]) * 100, 4) + 0.5
    if has_gc:
        ref["gc"] = (rng.permutation(n) * 1e-6 + rng.uniform(0.32, 0.68, n)).round(7)
    if has_rmask:
        ref["rmask"] = (rng.permutation(n) * 1e-6 + rng.uniform(0.0, 0.9, n)).round(7)
    # bad bins of each kind, anywhere (first and last rows favoured)
    nbad = int(rng.integers(0, max(2, n // 8)))
    spots = list(rng.integers(0, n, nbad)) + ([0] if rng.random() < 0.3 else []) + ([n - 1] if rng.random() < 0.3 else [])
    for s in spots:
        k = int(rng.integers(0, 9))
        if k == 0:
            ref.loc[s, "log2"] = float(rng.choice([-5.0, np.nextafter(-5.0, -10), -6.2, -20.0]))
        elif k == 1:
            ref.loc[s, "log2"] = float(rng.choice([5.0, np.nextafter(5.0, 10), 5.7]))
        elif k in (2, 3) and not flat:
            ref.loc[s, "spread"] = float(rng.choice([1.0, np.nextafter(1.0, 2), 1.3, 4.0]))
        elif k == 4 and has_depth:
            ref.loc[s, "depth"] = 0.0
        elif k in (5, 6) and has_gc:
            ref.loc[s, "gc"] = float(rng.choice([0.3, 0.7, np.nextafter(0.3, 0), np.nextafter(0.7, 1), 0.1, 0.95, 0.0, 1.0]))
    # the sample
    tmask = kind == "t"
    subset = rng.random() < 0.3
    keep = np.ones(n, bool)
    if subset:
        keep = rng.random(n) < 0.85
        keep[np.flatnonzero(tmask)[:5]] = True
    signal = np.where(rng.random(n) < 0.2, rng.choice([-1.0, 0.585, 1.0], n), 0.0)
    scale = float(rng.uniform(-3, 6))
    slog = np.round(np.where(np.abs(ref["log2"].values) < 6, ref["log2"].values, 0.0) + signal + rng.normal(0, 0.2, n), 6) + round(scale, 4)
    slog = np.clip(slog, -8.0, 12.0)
    sdepth = np.round(np.exp2(slog), 6) + 1e-6
    nulls = rng.random(n) < (0.06 if rng.random() < 0.4 else 0.0)
    if dead_anti:
        nulls = nulls | (kind == "a")       # amplicon-like sample: no off-target bin has any coverage
    slog[nulls] = -20.0
    sdepth[nulls] = 0.0
    samp = ref[["chromosome", "start", "end", "gene"]].copy()
    samp["log2"] = slog
    samp["depth"] = sdepth
    tgt = samp[tmask & keep].reset_index(drop=True)
    anti = samp[~tmask & keep].reset_index(drop=True)
    if rng.random() < 0.15 or empty_anti:
        anti = anti.iloc[:0]
    return tgt, anti, ref, {"flat": flat, "has_gc": has_gc, "has_rmask": has_rmask, "has_depth": has_depth, "nulls": bool(nulls.any()), "subset": subset}


def _cna(df, sid="S"):
    from cnvlib.cnary import CopyNumArray
    return CopyNumArray(df.copy(), {"sample_id": sid})


def _n(tier):
    return 384 if tier == "quick" else 3840


def case_fix(run, i):
    import cnvlib.fix as FX
    rng = run.rng("fix", i)
    variant = (i // 8) % 6
    corner = (i // 48) % 4        # 0: as drawn; 1: reference without gc column + no antitargets; 2: a chromosome with a single on-target bin; 3: no antitarget bin covered
    tgt, anti, ref, info = gen_case(rng, big=run.tier != "quick", no_gc=corner == 1, empty_anti=corner == 1, lone=corner == 2, dead_anti=corner == 3)
    opts = dict(do_gc=bool(i & 1), do_edge=bool(i & 2), do_rmask=bool(i & 4))
    cls = "fix:" + ("flat" if info["flat"] else "pooled") + ":" + "".join(k[3] for k, v in opts.items() if v) + ["", ":nogc-noanti", ":lone-target", ":antitargets-uncovered"][corner]
    if variant == 4:
        # refusal: a sample bin missing from the reference / duplicated coordinates
        which = int(rng.integers(0, 3))
        if which == 0:
            k = int(rng.integers(0, len(tgt)))
            drop = (ref["chromosome"] == tgt["chromosome"][k]) & (ref["start"] == tgt["start"][k]) & (ref["end"] == tgt["end"][k])
            ref = ref[~drop].reset_index(drop=True)
            cls = "refusal:missing"
        elif which == 1:
            k = int(rng.integers(0, len(tgt)))
            tgt = pd.concat([tgt, tgt.iloc[[k]]], ignore_index=True).sort_values(["chromosome", "start"], kind="mergesort").reset_index(drop=True)
            cls = "refusal:duplicate-sample"
        else:
            k = int(rng.integers(0, len(ref)))
            ref = pd.concat([ref.iloc[:k + 1], ref.iloc[[k]], ref.iloc[k + 1:]], ignore_index=True)
            cls = "refusal:duplicate-reference"
    run.begin_case("fix", i, cls=cls, options=opts, info=info)
    shuffled_in = variant == 5
    if shuffled_in and rng.random() < 0.5:
        tgt = tgt.iloc[rng.permutation(len(tgt))].reset_index(drop=True)
        ref = ref.iloc[rng.permutation(len(ref))].reset_index(drop=True)
    elif shuffled_in:
        # `sort -k1,1 -k2,2n` order: every chromosome one ascending block, the blocks in string order (chr1, chr11, chr2, ...):
        # looks sorted to anything that does not know the genome's order
        tgt = tgt.sort_values(["chromosome", "start", "end"], kind="mergesort").reset_index(drop=True)
        ref = ref.sort_values(["chromosome", "start", "end"], kind="mergesort").reset_index(drop=True)
        if len(anti):
            anti = anti.sort_values(["chromosome", "start", "end"], kind="mergesort").reset_index(drop=True)
        run.extra["inputs-in-string-chromosome-order"] += 1
    if i % 3 == 1 and variant != 4:
        # non-default row labels, as on filtered tables
        tgt = tgt.set_axis(np.arange(len(tgt)) * 2 + 3)
        ref = ref.set_axis(np.arange(len(ref)) * 3 + 1)
        if len(anti):
            anti = anti.set_axis(np.arange(len(anti)) * 2 + 4)
    run._tls.fix_meta = {"seed": int(rng.integers(0, 2 ** 31)), "permute": ["target", "antitarget", "reference"] if variant != 4 else [],
                         "scale": float(rng.choice([2.0 ** -6, 0.25, 3.0, 7.3, 64.0]))}
    try:
        FX.do_fix(_cna(tgt), _cna(anti), _cna(ref, "ref"), None, opts["do_gc"], opts["do_edge"], opts["do_rmask"])
    except Exception:
        pass
    run._tls.fix_meta = None
    run.end_case(fp=rt.fingerprint([tgt, anti, ref, sorted(opts.items())], 12), nontrivial=len(tgt) + len(anti) >= 2,
                 sample={"options": opts, "info": info, "target_head": tgt.head(3), "reference_head": ref.head(3)} if i % 97 == 0 else None)


def _n_seq(tier):
    return 64 if tier == "quick" else 800


def case_sequence(run, i):
    """One reference object (and one pair of coverage objects) used for several calls, edited in place between them with
    the library's own idioms.  Every call is judged on the tables as they are at that moment, so anything remembered on
    the objects from an earlier call shows as a wrong subtraction, a bin that should have been dropped, or a stale covariate."""
    import cnvlib.fix as FX
    rng = run.rng("sequence", i)
    tgt, anti, ref, info = gen_case(rng, big=False)
    T, A, R = _cna(tgt), _cna(anti), _cna(ref, "ref")
    run.begin_case("sequence", i, cls="sequence:" + ("flat" if info["flat"] else "pooled"), info=info)
    step = [0]

    def call():
        opts = dict(do_gc=bool(rng.integers(0, 2)), do_edge=bool(rng.integers(0, 2)), do_rmask=bool(rng.integers(0, 2)))
        run.case["options"] = opts
        run._tls.fix_meta = {"seed": int(rng.integers(0, 2 ** 31)), "permute": ["reference"] if step[0] % 2 else [], "scale": 3.0}
        try:
            FX.do_fix(T, A, R, None, opts["do_gc"], opts["do_edge"], opts["do_rmask"])
        except Exception:
            pass
        run._tls.fix_meta = None
        step[0] += 1

    call()
    with run.monitor_scope():
        first = R.chromosome.iloc[0]
        R[R.chromosome == first, "log2"] += 1.0                    # re-baselining one chromosome, as shift_xx does
    run.extra["sequence:reference-log2-edited-in-place"] += 1
    call()
    with run.monitor_scope():
        pick = rng.random(len(R)) < 0.1
        if "spread" in R and pick.any():
            R[pick, "spread"] = 1.5                                 # black-listing bins: they fail the reference filters now
            run.extra["sequence:reference-bins-blacklisted-in-place"] += 1
    call()
    with run.monitor_scope():
        if "gc" in R:
            R["gc"] = np.asarray(R["gc"])[::-1].copy()              # another GC track of the same length
            run.extra["sequence:reference-gc-replaced-in-place"] += 1
        T["log2"] = np.asarray(T["log2"]) + 0.25
        if "depth" in T:
            T["depth"] = np.asarray(T["depth"]) * 2 ** 0.25
    call()
    run.end_case(fp=rt.fingerprint([tgt, anti, ref], 12), nontrivial=len(tgt) + len(anti) >= 2)


def _n_cli(tier):
    return 16 if tier == "quick" else 96


def case_cli(run, i):
    from cnvlib import commands
    from skgenome import tabio
    rng = run.rng("cli", i)
    tgt, anti, ref, info = gen_case(rng, big=run.tier != "quick")
    flags = []
    if i & 1:
        flags.append("--no-gc")
    if i & 2:
        flags.append("--no-edge")
    if i & 4:
        flags.append("--no-rmask")
    run.begin_case("cli", i, cls="cli:" + ("flat" if info["flat"] else "pooled"), flags=flags, info=info)
    d = os.path.join(run.workdir, f"clifix{run.shard}_{i}")
    os.makedirs(d, exist_ok=True)
    pt, pa, pr, po = (os.path.join(d, f) for f in ("S.targetcoverage.cnn", "S.antitargetcoverage.cnn", "ref.cnn", "S.cnr"))
    with run.monitor_scope():
        tabio.write(_cna(tgt), pt)
        tabio.write(_cna(anti), pa)
        tabio.write(_cna(ref, "ref"), pr)
    seen = {}

    def grab(run_, snap, res, args, kwargs):
        seen["res"] = res.data.copy()
    import cnvlib.fix as FX
    w = rt.attach(FX, "do_fix", name="fix.do_fix[cli-result]", post=grab)
    from ..monitors import cli_plumb
    frac = [None, 0.05, 0.2][i % 3]
    if frac is not None:
        flags += ["--smoothing-window-fraction", repr(frac)]
    try:
        r = cli_plumb.check_cli(run, rt, FX, "do_fix", ["fix", pt, pa, pr, "-o", po] + flags,
                                dict(do_gc="--no-gc" not in flags, do_edge="--no-edge" not in flags, do_rmask="--no-rmask" not in flags, do_cluster=False,
                                     smoothing_window_fraction=frac, diploid_parx_genome=None), "fix")
        if r is not None:
            got = r[0]
            n_in = (len(got["target_raw"]), len(got["antitarget_raw"]), len(got["reference"]))
            if n_in != (len(tgt), len(anti), len(ref)):
                run.violate("cli.fix[plumbing]", "fix-cli-passes-wrong-tables", f"tables of {n_in} rows reached do_fix, the files hold {(len(tgt), len(anti), len(ref))}", r[2])
            else:
                cli_plumb.held(run, "fix", "cli-fix")
    finally:
        FX.do_fix = w.__vmon_orig__
    mon = "cli.fix[file]"
    if "res" in seen and os.path.exists(po):
        with open(po) as fh:
            rows = list(csv.DictReader(fh, delimiter="\t"))
        got = [(r["chromosome"], int(r["start"]), int(r["end"])) for r in rows]
        want = fixmon._key(seen["res"])
        if got != want:
            run.violate(mon, "cnr-file-differs-from-result", f"{len(got)} rows written, {len(want)} returned", {"file": got[:40], "returned": want[:40]})
        elif any(abs(float(r["log2"]) - v) > 1e-5 * abs(v) + 1e-12 for r, v in zip(rows, seen["res"]["log2"])) or \
                any(abs(float(r["weight"]) - v) > 1e-5 * abs(v) + 1e-12 for r, v in zip(rows, seen["res"]["weight"])):
            run.violate(mon, "cnr-file-values-differ", "log2/weight in the file differ from the returned table beyond 6 significant digits", {"file": rows[:10]})
        else:
            run.held(mon, "cli-file")
    else:
        run.ood(mon, "no-result-observed")
    shutil.rmtree(d, ignore_errors=True)
    run.end_case(fp=rt.fingerprint([tgt, ref, flags], 12), nontrivial=True)


WORKLOADS = {"fix": (_n, case_fix), "sequence": (_n_seq, case_sequence), "cli": (_n_cli, case_cli)}
_Q = {"fix.do_fix|held": 150, "fix.match_ref_to_sample|held": 250, "fix.center_by_window|held": 150, "fix.get_edge_bias|held": 60,
      "fix.do_fix[invariance]|held": 350, "class:perm:target": 100, "class:perm:antitarget": 60, "class:perm:reference": 100, "class:scale": 25,
      "extra:sequence:reference-log2-edited-in-place": 30, "class:refusal:missing": 4, "class:refusal:duplicate": 4, "cli.fix[file]|held": 8, "cli.fix[plumbing]|held": 8}
QUOTA_WAIVERS = {
    "monitor-unavailable:fix.center_by_window": {"waive": ["fix.center_by_window|held"], "require": {"fix.do_fix|held": 150, "fix.do_fix[invariance]|held": 350}},
    "monitor-unavailable:fix.match_ref_to_sample": {"waive": ["fix.match_ref_to_sample|held"], "require": {"fix.do_fix|held": 150}},
    "monitor-unavailable:fix.get_edge_bias": {"waive": ["fix.get_edge_bias|held"], "require": {"fix.do_fix|held": 150}},
}
QUOTAS = {"quick": _Q, "thorough": {k: v * (8 if "cli" not in k else 6) for k, v in _Q.items()}}

INTERNAL_MONITORS = {"fix.match_ref_to_sample": [], "fix.center_by_window": [], "fix.get_edge_bias": []}
QUOTA_WAIVERS["do_fix-calls-with-corrections-not-observable"] = {"waive": ["fix.center_by_window|held"], "require": {"fix.do_fix|held": 150, "fix.do_fix[invariance]|held": 350}}