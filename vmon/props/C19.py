"""C19 — robust estimators and smoothers obey their defining invariants.
Monitors (vmon/monitors/robust.py) on every public estimator of
cnvlib.descriptives and on smoothing.savgol/rolling_median/kaiser judge each
observed call; the workload feeds the vector classes the property names.
"""
import numpy as np

from .. import runtime as rt
from ..monitors import robust

TITLE = "Robust estimators and smoothers obey their defining invariants"
RULE = ("vectors of length 1..400 from classes {gaussian, rounded (heavy ties), two-valued, all-equal, one outlier at 3..500 MADs, "
        "NaN-sprinkled, length 1/2/3}; weights {equal, random, one dominant, some zeros}; every estimator called on every vector "
        "(Qn capped at n<=150 in quick); smoothers with fractional and integer widths incl. wider than the signal, savgol with and "
        "without strictly positive weights. Distinct by fingerprint of (vector, weights, widths); trivial when length < 2.")
ASSUMPTIONS = [
    "formula clauses are skipped (counted) when c*MAD is below the package's documented scale floor 1e-3, where the published formula is undefined/ill-conditioned",
    "shift clause for the mode is skipped (counted) when the KDE peak is not unique by a relative margin of 1e-6",
    "rescaling uses powers of two (exact in floating point); tolerances 1e-9 relative",
    "weighted MAD is judged convention-free: result/1.4826 must satisfy the half-weight conditions on |a - weighted median|",
]
BUDGET_S = {"quick": 600, "thorough": 2400}


def setup(run):
    return robust.attach_all(run, rt)


def _vector(rng, i):
    kind = i % 9
    n = int(rng.choice([1, 2, 3, 4, 5, 7, 10, 11, 30, 100, 399, 400])) if rng.random() < 0.4 else int(rng.integers(1, 401))
    loc, sc = float(rng.normal(0, 3)), float(np.exp(rng.normal(0, 1.5)))
    if kind == 0:
        a = rng.normal(loc, sc, n)
    elif kind == 1:
        a = np.round(rng.normal(loc, sc, n) / sc * 2) * sc / 2      # heavy ties
    elif kind == 2:
        a = rng.choice([loc, loc + sc], n)
    elif kind == 3:
        a = np.full(n, np.round(loc, 3))
    elif kind == 4:
        a = rng.normal(loc, sc, n)
        if n >= 3:
            m = np.median(np.abs(a - np.median(a))) or sc
            a[int(rng.integers(0, n))] = np.median(a) + float(rng.choice([-1, 1])) * m * float(rng.choice([3, 5.9, 6.1, 7, 8.4, 8.6, 9.1, 12, 50, 500]))
    elif kind == 5:
        a = rng.normal(loc, sc, n)
        if n >= 2:
            a[rng.random(n) < 0.15] = np.nan
        if 2 <= n <= 12 and rng.random() < 0.5:
            a[:] = np.nan
            a[int(rng.integers(0, n))] = loc          # NaN everywhere but one value: the estimators see a single value
    elif kind == 6:
        a = np.sort(rng.normal(loc, sc, n))                          # sorted / monotone
    elif kind == 7:
        a = np.arange(n, dtype=float) * sc + loc                     # exactly symmetric
    else:
        a = rng.standard_t(2, n) * sc + loc                          # heavy tails
    return a, ["gaussian", "ties", "two-valued", "constant", "outlier", "nan", "sorted", "symmetric", "heavy-tail"][kind]


def _weights(rng, n, i):
    k = (i // 9) % 4
    if k == 0:
        # equal weights, also values whose sums are not exact in binary (0.1 * 6 != 0.6 to the last bit)
        return np.full(n, float(rng.choice([1.0, 0.5, 3.0, 0.1, 0.3, 0.7, 1 / 3, 0.93])))
    if k == 1:
        w = rng.uniform(0.05, 1.0, n)
        if n >= 4 and rng.random() < 0.3:
            # the two halves of the sorted data nearly -- not exactly -- balanced: the median is NOT the midpoint of two values
            w = np.ones(n)
            w[int(rng.integers(0, n))] -= float(rng.choice([1e-6, 1e-8, 1e-10]))
        return w
    if k == 2:
        w = rng.uniform(0.05, 1.0, n)
        w[int(rng.integers(0, n))] = float(w.sum() * rng.choice([0.6, 1.0, 5.0]))
        return w
    w = rng.uniform(0.05, 1.0, n)
    if n > 1:
        z = rng.random(n) < 0.3
        z[int(rng.integers(0, n))] = False
        w[z] = 0.0
    return w


def _safe(fn, *a, **k):
    try:
        return fn(*a, **k)
    except Exception:
        return None


def _n(tier):
    return 3200 if tier == "quick" else 64000


def case_vec(run, i):
    import cnvlib.descriptives as D
    import cnvlib.smoothing as S
    rng = run.rng("vec", i)
    a, kind = _vector(rng, i)
    w = _weights(rng, len(a), i)
    run.begin_case("vectors", i, cls=f"vec:{kind}")
    if (i // 7) % 4 == 1:
        # the callers inside the package pass table columns: pandas Series whose labels are those of a filtered table
        import pandas as pd
        idx = np.arange(len(a)) * 2 + 5
        a, w = pd.Series(a, index=idx), pd.Series(w, index=idx)
        run.extra["input:series-with-non-default-labels"] += 1
    for name in ("biweight_location", "modal_location", "biweight_midvariance", "gapper_scale", "interquartile_range",
                 "median_absolute_deviation"):
        _safe(getattr(D, name), a)
    if len(a) <= (150 if run.tier == "quick" else 400):
        _safe(D.q_n, a)
    for name in ("weighted_median", "weighted_mad", "weighted_std"):
        _safe(getattr(D, name), a, w)
    # smoothers take finite signals
    x = a[~np.isnan(np.asarray(a, float))] if kind == "nan" else a
    widths = []
    if len(x):
        n = len(x)
        widths = [float(rng.choice([0.01, 0.1, 0.3, 0.5, 0.99])), int(rng.choice([2, 3, 5, 7, 21, max(2, n // 2), max(2, n), n + 5, 3 * n + 1]))]
        for width in widths:
            _safe(S.rolling_median, x, width)
            _safe(S.kaiser, x, width)
            _safe(S.savgol, x, width)
        _safe(S.kaiser, x)
        _safe(S.savgol, x)
        w0 = np.asarray(w, float)
        pw = np.where(w0[: len(x)] > 0, w0[: len(x)], 0.05) if len(w0) >= len(x) else np.full(len(x), 0.5)
        if hasattr(x, "index"):
            pw = type(x)(pw, index=x.index)
        _safe(S.savgol, x, widths[0], pw)
        if i % 5 == 3:
            _safe(S.savgol, x, widths[0], np.ones(len(x), dtype=int))      # whole-number weights, as a column of 1s read from a file
            run.extra["savgol:integer-weights"] += 1
        _safe(S.savgol, x, None, pw, int(rng.choice([5, 7, 11])), 3, int(rng.choice([1, 2, 4])))
    run.end_case(fp=rt.fingerprint([a, w, widths], 12), nontrivial=len(a) >= 2,
                 sample={"kind": kind, "a": np.asarray(a)[:8], "w": np.asarray(w)[:8], "widths": widths} if i % 701 == 0 else None)


WORKLOADS = {"vectors": (_n, case_vec)}
_Q = {f"descriptives.{n}|held": 1500 for n in ("biweight_location", "modal_location", "weighted_median", "biweight_midvariance",
                                                "gapper_scale", "interquartile_range", "median_absolute_deviation",
                                                "weighted_mad", "weighted_std")}
_Q.update({"descriptives.q_n|held": 500, "smoothing.rolling_median|held": 3000, "smoothing.kaiser|held": 3000, "smoothing.savgol|held": 5000})
QUOTAS = {"quick": _Q, "thorough": _Q}
