"""C03 — segments tile each chromosome and account for every surviving bin.

The per-arm monitor runs where the arm is segmented (inside the pool worker
for none/haar), sees the surviving bins through recorders on the segmenters,
and reports through the per-pid event log; the whole-call monitor checks
exactly-once dispatch/collection over the merged log and the tiling clauses on
the final table.  Worker delays make tasks complete out of submission order.
"""
import csv
import os

import numpy as np

from .. import runtime as rt
from ..gen import make_cna
from ..monitors import segmentation as segmon

TITLE = "Segments tile each chromosome and account for every surviving bin"
RULE = ("bin tables of 1..6 chromosomes (autosomes, X, Y; chr-prefixed or plain) x 1..400 bins (quick: <=160) with random bin sizes and gaps, an optional "
        ">=100 kb gap in the middle (arm split) or in the outer 10% (no split), null-coverage bins (log2 -20, depth 0) and zero/low-weight bins at both "
        "edges and in the interior, whole chromosomes filtered out, outlier spikes, runs of duplicate / ignorable gene names, with/without depth column; "
        "each table is segmented by none, haar and one HMM method under a drawn (skip_low, skip_outliers in {0,10,3}, min_weight in {0,0.3}, processes in "
        "{1,2,3,16}). Distinct by (table, config) fingerprint; non-trivial when some bin was filtered or some chromosome has >= 2 bins.")
ASSUMPTIONS = [
    "input bins are sorted, positive-length and non-overlapping within contiguous chromosomes (what target/antitarget/fix emit); other calls are counted out-of-domain",
    "tables carry a weight column (fix always writes one; _do_segmentation indexes it unconditionally); gene names contain no comma",
    "null-coverage bins are generated at log2 -20 / depth 0 and all other bins above log2 -10, so 'survives the low-coverage filter' does not depend on the exact cut-off",
    "'all input bins a segment spans' = input bins contained in it (segment boundaries are bin boundaries); depth is judged when the spanned weight is > 0",
    "in the main workload HMM methods are driven with at least one autosome holding >= 3 surviving bins (the model is fitted on autosomes); the 'degenerate' workload drives one-bin and constant tables through every method; cbs/flasso need R, which is not installed: their clauses are not observed",
    "calls with a variants argument (allele-frequency re-segmentation) are out of domain: the statement is about bins",
]
BUDGET_S = {"quick": 600, "thorough": 2400}
HASHSEEDS = ["0", "1", "7", "123"]

AUTOS = ["1", "2", "7", "19"]
GENES = ["A", "B", "C", "TP53", "-", "Antitarget", "Background", "CGH", ".", "BRCA1"]
HMMS = ["hmm", "hmm-tumor", "hmm-germline"]


def setup(run):
    return segmon.attach_all(run, rt)


def gen_table(rng, maxbins, need_autosome=True):
    nchr = int(rng.integers(1, 7))
    prefix = "chr" if rng.random() < 0.7 else ""
    pool = AUTOS + ["X", "Y"]
    pick = sorted(rng.choice(len(pool), size=nchr, replace=False).tolist())
    names = [pool[i] for i in pick]
    if need_autosome and not any(n in AUTOS for n in names):
        names = ["1"] + names[: max(0, nchr - 1)]
    cols = {k: [] for k in ("chromosome", "start", "end", "gene", "log2", "depth", "weight")}
    info = {"split": 0, "edge_null": 0, "chrom_all_filtered": 0}
    for ci, nm in enumerate(names):
        r = rng.random()
        if r < 0.12:
            n = int(rng.integers(1, 4))
        elif r < 0.55:
            n = int(rng.integers(4, 60))
        elif r < 0.8:
            n = int(rng.integers(102, max(103, min(maxbins, 160)) + 1))
        else:
            n = int(rng.integers(60, maxbins + 1))
        n = min(n, maxbins)
        sizes = rng.integers(50, 3000, n)
        gaps = np.where(rng.random(n) < 0.5, 0, rng.integers(0, 6000, n))
        if n > 101 and rng.random() < 0.6:
            margin = max(50, int(round(0.1 * n)))
            if rng.random() < 0.75 and n > 2 * margin + 2:
                at = int(rng.integers(margin + 1, n - margin))
                info["split"] += 1
            else:
                at = int(rng.integers(1, max(2, margin)))   # outer part: must not split
            gaps[at] = int(rng.integers(100000, 3000000))
        pos = int(rng.integers(0, 100000))
        starts, ends = [], []
        for i in range(n):
            pos += int(gaps[i])
            starts.append(pos)
            pos += int(sizes[i])
            ends.append(pos)
        # piecewise-constant signal
        lvl = 0.0
        log2 = np.empty(n)
        for i in range(n):
            if rng.random() < 0.03:
                lvl = float(rng.choice([-1.0, 0.0, 0.585, 1.0, -0.4]))
            log2[i] = lvl
        log2 += rng.normal(0, float(rng.choice([0.02, 0.1, 0.3])), n)
        if rng.random() < 0.3 and n > 10:
            k = int(rng.integers(1, 4))
            log2[rng.integers(0, n, k)] += rng.choice([-4.0, 4.0], k)   # outlier spikes
        log2 = np.clip(log2, -9, 9)
        weight = np.round(rng.uniform(0.05, 1.0, n), 4)
        depth = np.round(np.exp2(log2) * float(rng.uniform(20, 200)), 4) + 0.01
        null = np.zeros(n, bool)
        zero = np.zeros(n, bool)
        mode = rng.random()
        if mode < 0.08:
            null[:] = True                     # whole chromosome without coverage
            info["chrom_all_filtered"] += 1
        elif mode < 0.16:
            zero[:] = True
            info["chrom_all_filtered"] += 1
        else:
            if rng.random() < 0.45:
                k = int(rng.integers(1, 5))
                (null if rng.random() < 0.6 else zero)[:k] = True
                info["edge_null"] += 1
            if rng.random() < 0.45:
                k = int(rng.integers(1, 5))
                (null if rng.random() < 0.6 else zero)[-k:] = True
                info["edge_null"] += 1
            if rng.random() < 0.5:
                null |= rng.random(n) < 0.05
            if rng.random() < 0.5:
                zero |= rng.random(n) < 0.05
            if rng.random() < 0.2 and n > 20:
                a = int(rng.integers(1, n - 5))
                null[a:a + int(rng.integers(2, 12))] = True
        log2[null] = -20.0
        depth[null] = 0.0
        weight[zero] = 0.0
        low = rng.random(n) < 0.1
        weight[low & ~zero] = np.round(rng.uniform(0.01, 0.29, int((low & ~zero).sum())), 4)
        g = str(rng.choice(GENES))
        genes = []
        for i in range(n):
            if rng.random() < 0.25:
                g = str(rng.choice(GENES)) if rng.random() < 0.8 else f"G{ci}_{i}"
            genes.append(g)
        cols["chromosome"] += [prefix + nm] * n
        cols["start"] += starts
        cols["end"] += ends
        cols["gene"] += genes
        cols["log2"] += log2.tolist()
        cols["depth"] += depth.tolist()
        cols["weight"] += weight.tolist()
    return cols, info


def _hmm_ok(cols, skip_low, min_weight):
    """At least one autosome with >= 3 bins surviving the deterministic filters."""
    cnt = {}
    for c, lg, d, w in zip(cols["chromosome"], cols["log2"], cols["depth"], cols["weight"]):
        if skip_low and (lg < -15 or d == 0):
            continue
        if (min_weight and w < min_weight) or (not min_weight and w == 0):
            continue
        cnt[c] = cnt.get(c, 0) + 1
    return any(c.replace("chr", "") in AUTOS and k >= 3 for c, k in cnt.items())


def _n(tier):
    return 240 if tier == "quick" else 3000


def _config(rng, i):
    return dict(skip_low=bool(rng.random() < 0.6), skip_outliers=int(rng.choice([0, 0, 10, 3])),
                min_weight=float(rng.choice([0, 0, 0.3])), processes=int([1, 2, 3, 16][i % 4]))


def case_table(run, i):
    import cnvlib.segmentation as S
    rng = run.rng("table", i)
    maxbins = 160 if run.tier == "quick" else 400
    cols, info = gen_table(rng, maxbins)
    drop_depth = rng.random() < 0.15
    use = {k: v for k, v in cols.items() if not (drop_depth and k == "depth")}
    run.begin_case("table", i, cls="table:" + ("arm-split" if info["split"] else "no-split") + (":edge-filtered" if info["edge_null"] else "")
                   + (":chrom-all-filtered" if info["chrom_all_filtered"] else ""))
    fps = []
    for method in ("none", "haar", HMMS[i % 3]):
        cfg = _config(rng, i + (0 if method == "none" else 1 if method == "haar" else 2))
        if method.startswith("hmm"):
            cfg["processes"] = 1
            if not _hmm_ok(cols, cfg["skip_low"], cfg["min_weight"]):
                run.extra["hmm-skipped-no-autosome-survivors"] += 1
                continue
        cna = make_cna(use, meta={"sample_id": "S"}, odd=(i % 3 == 1))
        run.case["method"], run.case["config"] = method, cfg
        try:
            S.do_segmentation(cna, method, skip_low=cfg["skip_low"], skip_outliers=cfg["skip_outliers"],
                              min_weight=cfg["min_weight"], processes=cfg["processes"])
        except Exception:
            pass
        fps.append((method, sorted(cfg.items())))
    nontrivial = info["edge_null"] or info["chrom_all_filtered"] or len(cols["start"]) > len(set(cols["chromosome"]))
    run.end_case(fp=rt.fingerprint([use, fps], 12), nontrivial=bool(nontrivial),
                 sample={"chromosome": cols["chromosome"][:3], "start": cols["start"][:3], "log2": cols["log2"][:3], "weight": cols["weight"][:3], "configs": fps} if i % 97 == 0 else None)


# ---- one table object segmented, changed in place by the library's own methods, and segmented again

def _n_seq(tier):
    return 96 if tier == "quick" else 1200


def case_sequence(run, i):
    """Every call is judged on the table as it is at that moment, so anything
    remembered from the earlier call (arm boundaries, filters, caches on the
    object) shows as a wrong tiling or wrong aggregates."""
    import cnvlib.segmentation as S
    rng = run.rng("sequence", i)
    maxbins = 160 if run.tier == "quick" else 400
    cols, info = gen_table(rng, maxbins)
    n = len(cols["start"])
    first = rng.random(n) < 0.6
    if first.all() or not first.any():
        first[:] = True
        first[n // 2:] = n < 2
    part = lambda m: {k: [v for v, keep in zip(vals, m) if keep] for k, vals in cols.items()}
    cna = make_cna(part(first), meta={"sample_id": "S"})
    rest = make_cna(part(~first), meta={"sample_id": "S"}) if (~first).any() else None
    methods = ["none", "haar"] if i % 3 else ["haar", "none"]
    run.begin_case("sequence", i, cls="sequence:" + ("arm-split" if info["split"] else "no-split"))
    step = 0

    def seg(method):
        cfg = _config(rng, i + step)
        run.case["method"], run.case["config"] = method, cfg
        try:
            S.do_segmentation(cna, method, skip_low=cfg["skip_low"], skip_outliers=cfg["skip_outliers"], min_weight=cfg["min_weight"], processes=cfg["processes"])
        except Exception:
            pass

    seg(methods[0]); step += 1
    if rest is not None:
        with run.monitor_scope():
            cna.add(rest)                       # in place: the held-back bins join the table (as antitargets join targets)
        run.extra["sequence:grown-in-place"] += 1
    seg(methods[1]); step += 1
    with run.monitor_scope():
        keep = rng.random(len(cna)) < 0.7
        if keep.any():
            cna.data = cna.data[keep].reset_index(drop=bool(i % 2))     # shrunk in place (with and without fresh row labels)
            run.extra["sequence:shrunk-in-place"] += 1
    seg(methods[0]); step += 1
    with run.monitor_scope():
        try:
            cna.center_all()
            cna[cna.chromosome == cna.chromosome.iloc[0], "log2"] += 0.5
            run.extra["sequence:values-changed-in-place"] += 1
        except Exception:
            pass
    seg(methods[1])
    run.end_case(fp=rt.fingerprint([cols["start"][:40], cols["log2"][:40], first.tolist()[:40]], 12), nontrivial=n > 3)


# ---- the command-line path: .cnr file -> cnvkit.py segment -> .cns file

def _n_cli(tier):
    return 16 if tier == "quick" else 120


def case_cli(run, i):
    from cnvlib import commands
    from skgenome import tabio
    rng = run.rng("cli", i)
    cols, info = gen_table(rng, 160 if run.tier == "quick" else 400)
    method = ["none", "haar", "hmm-germline", "hmm", "hmm-tumor"][i % 5]
    if i % 4 == 1:
        # a file whose weights are all whole numbers (1 = "no weighting", 0 = masked): the column reads back as integers
        cols = dict(cols, weight=[0.0 if w == 0 else 1.0 for w in cols["weight"]])
    skip_low = bool(i % 2)
    outl = [0, 10, 3][i % 3]
    procs = [1, 2, 4][i % 3]
    if method.startswith("hmm") and not _hmm_ok(cols, skip_low, 0):
        method = "haar"
    run.begin_case("cli", i, cls=f"cli:{method}", method=method, config={"skip_low": skip_low, "skip_outliers": outl, "processes": procs})
    d = os.path.join(run.workdir, f"cli{run.shard}_{i}")
    os.makedirs(d, exist_ok=True)
    cnr, cns = os.path.join(d, "S.cnr"), os.path.join(d, "S.cns")
    with rt.current().monitor_scope():
        tabio.write(make_cna(cols, meta={"sample_id": "S"}), cnr)
    argv = ["segment", cnr, "-m", method, "-o", cns, "--drop-outliers", str(outl), "-p", str(procs)]
    if skip_low:
        argv.append("--drop-low-coverage")
    run._tls.last_seg = None
    import cnvlib.segmentation as S
    from ..monitors import cli_plumb
    thr = [None, 1e-3, 1e-6][i % 3] if method == "haar" else None
    if thr is not None:
        argv += ["-t", repr(thr)]
    r = cli_plumb.check_cli(run, rt, S, "do_segmentation", argv,
                            dict(method=method, skip_low=skip_low, skip_outliers=float(outl), processes=procs, threshold=thr, variants=None, save_dataframe=False),
                            "segment", truthy=("variants",))
    if r is not None:
        if len(r[0]["cnarr"]) != len(cols["start"]):
            run.violate("cli.segment[plumbing]", "segment-cli-passes-wrong-table", f"{len(r[0]['cnarr'])} bins reached do_segmentation, the file holds {len(cols['start'])}", r[2])
        else:
            cli_plumb.held(run, "segment", f"cli-segment:{method}")
    seen = getattr(run._tls, "last_seg", None)
    mon = "cli.segment[file]"
    if seen is not None and ("probes" not in seen or not seen["n"]):
        run.ood(mon, "no-segment-returned")
    elif seen is not None and os.path.exists(cns):
        with open(cns) as fh:
            rows = list(csv.DictReader(fh, delimiter="\t"))
        got = [(r["chromosome"], int(r["start"]), int(r["end"]), int(float(r["probes"]))) for r in rows]
        want = list(zip(seen["chromosome"], seen["start"], seen["end"], (int(p) for p in seen["probes"])))
        if got != want:
            run.violate(mon, "cns-file-differs-from-result", f"{len(got)} rows written, {len(want)} segments returned", {"file": got[:50], "returned": want[:50]})
        elif any(abs(float(r["log2"]) - l) > 1e-5 * abs(l) + 1e-12 for r, l in zip(rows, seen["log2"])):
            run.violate(mon, "cns-file-log2-differs", "log2 in the file differs from the returned table beyond %.6g", {"file": rows[:20]})
        else:
            run.held(mon, f"cli-file:{method}")
    elif seen is None:
        run.ood(mon, "no-do_segmentation-result-observed")
    import shutil
    shutil.rmtree(d, ignore_errors=True)
    run.end_case(fp=rt.fingerprint([cols, argv[3:]], 12), nontrivial=True)


# ---- degenerate tables: one bin, or a constant signal

def _n_deg(tier):
    return 30 if tier == "quick" else 120


def case_degenerate(run, i):
    import cnvlib.segmentation as S
    rng = run.rng("degenerate", i)
    nb = [1, 1, 2, 5, 40][i % 5]
    nchr = [1, 2][(i // 5) % 2]
    const = float(rng.choice([0.0, 0.3, -1.0]))
    cols = {k: [] for k in ("chromosome", "start", "end", "gene", "log2", "depth", "weight")}
    for c in ["chr1", "chr2"][:nchr]:
        for k in range(nb):
            cols["chromosome"].append(c); cols["start"].append(1000 * k); cols["end"].append(1000 * k + 800); cols["gene"].append("G")
            cols["log2"].append(const); cols["depth"].append(50.0); cols["weight"].append(0.8)
    method = ("none", "haar", "hmm", "hmm-tumor", "hmm-germline")[(i // 10) % 5] if i >= 10 else ("hmm", "hmm-germline", "hmm-tumor", "none", "haar")[i % 5]
    run.begin_case("degenerate", i, cls=f"degenerate:{method}:{nb}bins", method=method)
    try:
        S.do_segmentation(make_cna(cols, meta={"sample_id": "S"}), method, skip_outliers=0)
    except Exception:
        pass
    run.end_case(fp=rt.fingerprint([nb, nchr, const, method], 12), nontrivial=False)


WORKLOADS = {"table": (_n, case_table), "sequence": (_n_seq, case_sequence), "cli": (_n_cli, case_cli), "degenerate": (_n_deg, case_degenerate)}
_Q = {
    "segmentation._do_segmentation[arm]|held": 400,
    "segmentation.do_segmentation|held": 250,
    "class:arm:none:edge-filtered": 20,
    "class:arm:haar:edge-filtered": 20,
    "class:arm:hmm:edge-filtered": 3,
    "class:arm:hmm-germline:edge-filtered": 3,
    "class:arm:hmm-tumor:edge-filtered": 3,
    "extra:calls-with-arm-split": 20,
    "extra:sequence:grown-in-place": 40,
    "extra:calls-completing-out-of-submission-order": 5,
    "extra:calls-spread-over-several-worker-processes": 20,
    "cli.segment[file]|held": 8, "cli.segment[plumbing]|held": 10,
}
QUOTAS = {"quick": _Q, "thorough": dict(_Q, **{"segmentation._do_segmentation[arm]|held": 5000, "cli.segment[file]|held": 60})}


# if the per-arm internal is gone, its quotas are waived and the boundary-only monitor must have decided instead
# (the monitor on drop_outliers is auxiliary and carries no quota: a tree that filters outliers by another route is still judged by the arm monitor)
QUOTA_WAIVERS = {"monitor-unavailable:segmentation._do_segmentation[arm]": {
    "waive": [k for k in _Q if k.startswith(("segmentation._do_segmentation", "segmentation.do_segmentation|", "class:arm:", "extra:calls-"))],
    "require": {"segmentation.do_segmentation[boundary-only]|held": 80}}}


def evidence_extra(m, tier):
    return {"schedules": {
        "worker_process_counts_requested": [1, 2, 3, 16],
        "distinct_worker_pid_counts_observed": sorted(m["sets"].get("worker_pids_per_call", [])),
        "calls_with_several_arms": m["extra"].get("calls-with-several-arms", 0),
        "calls_completing_out_of_submission_order": m["extra"].get("calls-completing-out-of-submission-order", 0),
        "distinct_completion_orders_observed": len(m["sets"].get("completion_orders", [])),
    }}
