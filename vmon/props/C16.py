"""C16 — gene-level grouping yields each gene's own bins, each bin exactly once.
A generator-collecting monitor on CopyNumArray.by_gene keeps an exactly-once
ledger of the yielded bins and compares the group sequence with a plain-tuple
model; genemetrics / breaks / squash_genes are judged against the same model.
"""
import numpy as np

from .. import runtime as rt
from ..gen import make_cna
from ..monitors import genes

TITLE = "Gene-level grouping yields each gene's own bins, each bin exactly once"
RULE = ("bin tables of 1..5 chromosomes (incl. X) with 0..12 genes of 1..10 consecutive bins, interrupted only by Antitarget/'-'/'.'/CGH/Background "
        "bins, such bins also at chromosome starts/ends and as a single trailing bin, genes touching, same gene name on two chromosomes, "
        "non-default row index (filtered arrays), with/without weight and depth, null-coverage bins; each table goes through by_gene (default, tuple and "
        "list ignore), squash_genes, genemetrics (no segments / segments cutting inside and between genes; thresholds; min_probes 1..5; skip_low; "
        "sex options) and breaks (min_probes 1..3). Distinct by table fingerprint; non-trivial with >= 1 gene.")
ASSUMPTIONS = [
    "comma-joined multi-gene bins and genes whose bins are interrupted by another gene are outside the premise (counted out-of-domain)",
    "genemetrics with segments is judged with min_probes <= 1 (the statement does not say whose bin count the minimum applies to there)",
    "genemetrics with inferred sex (is_sample_female=None) is left to C15",
    "genes whose bins all have zero weight are not generated when a depth column is present (weight-averaged depth undefined)",
]
BUDGET_S = {"quick": 600, "thorough": 2400}
IGN = ["Antitarget", "-", ".", "CGH", "Background"]


def setup(run):
    return genes.attach_all(run, rt)


def _table(rng):
    nchr = int(rng.integers(1, 6))
    names = ["chr1", "chr2", "chr9", "chrX", "chr17"][:nchr]
    names = sorted(names, key=["chr1", "chr2", "chr9", "chr17", "chrX"].index)
    cols = {k: [] for k in ("chromosome", "start", "end", "gene", "log2", "weight", "depth")}
    gcount = 0
    all_names = []
    for c in names:
        pos = int(rng.integers(0, 5000))
        ngenes = int(rng.integers(0, 13))
        earlier = [g for g in all_names]
        here = []

        def add(name, lg):
            nonlocal pos
            ln = int(rng.integers(50, 400))
            null = rng.random() < 0.06
            cols["chromosome"].append(c); cols["start"].append(pos); cols["end"].append(pos + ln); cols["gene"].append(name)
            cols["log2"].append(-20.0 if null else lg + float(rng.normal(0, 0.05)))
            cols["weight"].append(float(rng.uniform(0.2, 1.0)))
            cols["depth"].append(0.0 if null else float(rng.uniform(5, 500)))
            pos += ln + int(rng.choice([0, 0, 10, 3000]))

        def filler(kmax=4):
            for _ in range(int(rng.integers(0, kmax))):
                add(str(rng.choice(IGN)), float(rng.normal(0, 0.1)))

        if rng.random() < 0.6:
            filler()
        for _ in range(ngenes):
            # reuse a name from an earlier chromosome now and then
            if earlier and rng.random() < 0.1:
                name = earlier.pop(int(rng.integers(0, len(earlier))))
            else:
                name = f"G{gcount}"
            here.append(name)
            gcount += 1
            level = float(rng.choice([0.0, 0.0, 0.2, -0.2, 0.5, -1.0, 1.5, 0.199, 0.201]))
            for k in range(int(rng.integers(1, 11))):
                add(name, level)
                if rng.random() < 0.12:
                    add(str(rng.choice(IGN)), level)      # ignored-name bin inside the gene
                    add(name, level)
            if rng.random() < 0.5:
                filler(3)
        r = rng.random()
        if r < 0.25:
            add(str(rng.choice(IGN)), 0.0)                # single trailing bin
        elif r < 0.5:
            filler(5)
        all_names += here
        if not any(ch == c for ch in cols["chromosome"]):
            add("Antitarget", 0.0)
    if rng.random() < 0.5:
        # masked bins (weight exactly 0) among the ignored-name bins -- also those lying between a gene's first and last bin
        # (named bins keep positive weights: the weight-averaged depth of an all-masked gene part is undefined)
        for k, g in enumerate(cols["gene"]):
            if g in IGN and rng.random() < 0.4:
                cols["weight"][k] = 0.0
    return cols


def _segments(rng, cols):
    """Segments tiling each chromosome's bins, boundaries on bin boundaries."""
    out = {k: [] for k in ("chromosome", "start", "end", "gene", "log2", "probes", "weight")}
    chroms = cols["chromosome"]
    i = 0
    n = len(chroms)
    while i < n:
        j = i
        while j < n and chroms[j] == chroms[i]:
            j += 1
        k = i
        while k < j:
            m = min(j, k + int(rng.integers(1, max(2, (j - i)))))
            out["chromosome"].append(chroms[i]); out["start"].append(cols["start"][k]); out["end"].append(cols["end"][m - 1])
            out["gene"].append("-"); out["log2"].append(float(rng.choice([0.0, 0.1, 0.2, -0.2, 0.6, -1.0, 0.19, 0.21])))
            out["probes"].append(m - k); out["weight"].append(float(sum(cols["weight"][k:m])))
            k = m
        i = j
    return out


def _n(tier):
    return 300 if tier == "quick" else 5000


def case_table(run, i):
    import cnvlib.reports as R
    rng = run.rng("table", i)
    cols = _table(rng)
    variant = i % 4
    use = {k: cols[k] for k in ("chromosome", "start", "end", "gene", "log2")}
    if variant in (0, 2):
        use["weight"] = cols["weight"]
    if variant in (0, 1):
        use["depth"] = cols["depth"]
    n = len(cols["start"])
    run.begin_case("table", i, cls=f"table:v{variant}")
    cna = make_cna(use)
    segs = make_cna(_segments(rng, cols))
    if i % 3 == 0 and n > 3:
        # filtered array: non-default row labels
        keep = np.ones(n, bool)
        keep[rng.integers(0, n, max(1, n // 10))] = False
        cna = cna[keep]
    def safe(fn, *a, **k):
        try:
            r = fn(*a, **k)
            return list(r) if hasattr(r, "__next__") else r
        except Exception:
            return None
    safe(cna.by_gene)
    safe(cna.by_gene, ("-", "CGH"))
    lst = ["-", ".", "CGH"]
    safe(cna.by_gene, lst)
    safe(cna.squash_genes)
    safe(cna.squash_genes, np.median, True)
    for _ in range(2):
        thr = float(rng.choice([0.0, 0.1, 0.2, 0.5, 1.0]))
        safe(R.do_genemetrics, cna, None, thr, int(rng.integers(0, 6)), bool(rng.integers(0, 2)), bool(rng.integers(0, 2)), bool(rng.integers(0, 2)))
        safe(R.do_genemetrics, cna, segs, thr, int(rng.integers(0, 2)), bool(rng.integers(0, 2)), bool(rng.integers(0, 2)), bool(rng.integers(0, 2)))
    safe(R.do_breaks, cna, segs, int(rng.integers(1, 4)))
    safe(R.do_breaks, cna, segs)
    if i % 4 == 1 and len(cna) > 3:
        # the same object, edited in place (rows dropped, one gene's bins re-labelled as ignored), then asked again: anything remembered
        # on the object from the calls above (a gene map, labels) is stale now
        with run.monitor_scope():
            keep = rng.random(len(cna)) < 0.8
            keep[0] = True
            cna.data = cna.data[keep]
            names = [g for g in dict.fromkeys(cna["gene"]) if g not in IGN]
            if names:
                gone = str(rng.choice(names))
                cna["gene"] = ["-" if g == gone else g for g in cna["gene"]]
        run.extra["tables-edited-in-place-and-asked-again"] += 1
        safe(cna.by_gene)
        safe(cna.squash_genes)
        safe(R.do_genemetrics, cna, None, 0.0, 1, False, False, False)
        safe(R.do_genemetrics, cna, segs, 0.0, 1, False, False, False)
        safe(R.do_breaks, cna, segs, 1)
    run.end_case(fp=rt.fingerprint(use, 12), nontrivial=any(g not in IGN for g in cols["gene"]),
                 sample={"chromosome": cols["chromosome"][:10], "gene": cols["gene"][:10]} if i % 97 == 0 else None)


def _n_cli(tier):
    return 24 if tier == "quick" else 200


def case_cli(run, i):
    """`cnvkit.py genemetrics` on written files: -t / -m / --drop-low-coverage / -y / -x / -s reach do_genemetrics, with the files' tables,
    and the table written is the one returned."""
    import os
    import shutil
    from skgenome import tabio
    from cnvlib import commands as CM
    from ..monitors import cli_plumb
    rng = run.rng("cli", i)
    cols = _table(rng)
    use = {k: cols[k] for k in ("chromosome", "start", "end", "gene", "log2", "weight", "depth")}
    d = os.path.join(run.workdir, f"cli16_{run.shard}_{i}")
    os.makedirs(d, exist_ok=True)
    pb, ps, po = os.path.join(d, "S.cnr"), os.path.join(d, "S.cns"), os.path.join(d, "genes.tsv")
    segcols = _segments(rng, cols)
    with run.monitor_scope():
        tabio.write(make_cna(use), pb)
        tabio.write(make_cna(segcols), ps)
    thr, minp = float(rng.choice([0.0, 0.15, 0.5])), int(rng.integers(1, 5))
    low, male, female, withseg = bool(i % 2), bool((i // 2) % 2), bool((i // 4) % 2), bool(i % 3)
    argv = ["genemetrics", pb, "-o", po, "-t", repr(thr), "-m", str(minp), "-x", cli_plumb.sex_arg(female, i)] + (["--drop-low-coverage"] if low else []) \
        + (["-y"] if male else []) + (["-s", ps] if withseg else [])
    run.begin_case("cli", i, cls="cli:genemetrics", argv=argv[2:])
    r = cli_plumb.check_cli(run, rt, CM, "do_genemetrics", argv,
                            dict(threshold=thr, min_probes=minp, skip_low=low, is_haploid_x_reference=male, is_sample_female=female, segments=withseg, diploid_parx_genome=None),
                            "genemetrics", truthy=("segments",))
    if r is not None:
        got, res, wit = r
        if len(got["cnarr"]) != len(cols["start"]) or (withseg and len(got["segments"]) != len(segcols["start"])):
            run.violate("cli.genemetrics[plumbing]", "genemetrics-cli-passes-wrong-tables", "the tables reaching do_genemetrics are not the files' tables", wit)
        elif not isinstance(res, Exception):
            rows = cli_plumb.read_tsv(po) if os.path.exists(po) else None
            fcols = [c for c in res.columns if c in ("log2", "depth", "weight", "segment_weight")]
            icols = [c for c in res.columns if c in ("start", "end", "probes", "segment_probes")]
            msg = "no output file" if rows is None else cli_plumb.file_matches_table(rows, res, int_cols=icols, float_cols=fcols, str_cols=("gene", "chromosome"), opt_int=())
            if msg:
                run.violate("cli.genemetrics[plumbing]", "genemetrics-cli-file-differs-from-result", msg, wit)
            else:
                cli_plumb.held(run, "genemetrics", "cli-genemetrics")
    shutil.rmtree(d, ignore_errors=True)
    run.end_case(fp=rt.fingerprint([use["log2"][:30], i], 12), nontrivial=True)


WORKLOADS = {"table": (_n, case_table), "cli": (_n_cli, case_cli)}
_Q = {"cli.genemetrics[plumbing]|held": 18, "CopyNumArray.by_gene|held": 1500, "reports.do_genemetrics|held": 800, "reports.do_breaks|held": 400, "CopyNumArray.squash_genes|held": 400}
QUOTAS = {"quick": _Q, "thorough": _Q}
