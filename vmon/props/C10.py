"""C10 — results depend only on arguments (not workers, RNG, history); inputs
untouched; writers that promise not to overwrite do not.

Every operation of the property's list carries a purity wrapper
(monitors/purity.py).  The workload drives random call sequences on shared
argument objects; each sequence is executed several times on equal worlds --
serially, with other worker counts, with the global RNGs reseeded and drained
between calls, after unrelated calls -- and a subset of sequences is executed
in every shard process (four different PYTHONHASHSEED values), whose result
fingerprints are compared after the shards are merged.
"""
import os
import random
import shutil

import numpy as np

from .. import runtime as rt
from ..gen import make_cna, make_ga
from ..monitors import purity
from . import C03, C04

TITLE = "Results depend only on arguments (not workers, RNG, history); inputs untouched"
RULE = ("call sequences of length 1..4 drawn from {target, antitarget, fix, segment (none, haar, hmm, hmm-tumor, hmm-germline), segmetrics (incl. bootstrap "
        "ci/pi), call (threshold/clonal/none x filter lists incl. ci/sem), genemetrics, breaks, bintest, metrics, export bed/vcf/theta, center_all on a "
        "copy, merge/flatten/subtract/intersection/subdivide/resize_ranges, by_arm/by_gene} on shared argument objects; each sequence run 4 times on equal "
        "worlds (serial; processes 2/3/16; RNGs reseeded and drained between calls; after unrelated calls) and every 4th sequence in all 16 shard processes "
        "under 4 PYTHONHASHSEED values; 1..5 writes to one path through the reference/coverage-style ensure_path + write. Distinct by sequence fingerprint.")
ASSUMPTIONS = [
    "equality of tables is exact (fingerprint over column names, dtypes, row labels and values; NaN == NaN), except chromosome-label entries cached in an array's metadata",
    "the worker count is left out of the argument key, everything else the caller passes is part of it",
    "in-place methods (center_all) are judged as functions of the object's state before the call; their receiver is expected to change",
    "inside pool workers the wrappers only log (a forked worker's counters die with it); argument mutation there cannot reach the caller anyway",
]
BUDGET_S = {"quick": 600, "thorough": 2400}
HASHSEEDS = ["0", "1", "77", "4242"]
SHARDS = {"quick": 16, "thorough": 16}


def setup(run):
    return purity.attach_all(run, rt)


# ------------------------------------------------------------------ the world

def make_world(seed_rng_key, run):
    """Deterministic set of argument objects for one sequence."""
    rng = run.rng(*seed_rng_key)
    cols, _info = C03.gen_table(rng, 90)
    # by_gene / genemetrics want gene runs; keep the generated names
    # non-default row labels (as on a filtered array) make an in-place sort()/reset_index() of the caller's table visible
    odd_index = rng.random() < 0.5
    n = len(cols["start"])
    w = {"cnr": make_cna(cols, meta={"sample_id": "S"}, index=(np.arange(n) * 3 + 7) if odd_index else None)}
    tgt, anti, ref, _ = C04.gen_case(rng)
    # covariate ties: the order within a tie is decided by fix's seeded shuffle, so the result depends on that seed being set
    for col in ("gc", "rmask"):
        if col in ref.columns:
            ref[col] = ref[col].round(2)
    if rng.random() < 0.6:
        # fix documents no row-order precondition: rows in arbitrary order, arbitrary labels
        tgt = tgt.iloc[rng.permutation(len(tgt))]
        ref = ref.iloc[rng.permutation(len(ref))]
        if len(anti) > 1:
            anti = anti.iloc[rng.permutation(len(anti))]
    if len(anti) and rng.random() < 0.12:
        tgt = tgt.iloc[:0]          # no on-target bin at all (an off-target-only run): fix then works from the antitargets alone
    w["tgt"], w["anti"], w["ref"] = C04._cna(tgt), C04._cna(anti), C04._cna(ref, "ref")
    rows = []
    for c in ("chr2", "chr10"):
        pos = 1000
        for k in range(int(rng.integers(3, 25))):
            pos += int(rng.integers(-200, 3000))
            pos = max(pos, 0)
            ln = int(rng.integers(50, 1500))
            rows.append((c, pos, pos + ln, f"G{k // 3}"))
            pos += ln if rng.random() < 0.8 else 0
    rows.sort(key=lambda r: (r[0], r[1], r[2]))
    w["regions"] = make_ga(rows, extras=("gene",))
    if odd_index:
        w["regions"].data.index = np.arange(len(rows)) * 2 + 11
    other = [(c, s + int(rng.integers(-300, 300)) if s > 300 else s, e + int(rng.integers(0, 400)), g) for c, s, e, g in rows[::2]]
    other = sorted((c, max(0, s), max(e, max(0, s) + 1), g) for c, s, e, g in other)
    w["other"] = make_ga(other, extras=("gene",))
    w["filters"] = [["ci", "cn"], ["sem"], ["cn", "ampdel"], ["ampdel", "ci"], None, []][int(rng.integers(0, 6))]
    w["ci_filters"] = [["ci", "cn"], ["sem"], ["ampdel", "ci"], ["sem", "cn"]][int(rng.integers(0, 4))]
    w["thresholds"] = [-1.1, -0.25, 0.2, 0.7]
    w["ignore"] = [("-", ".", "CGH"), ["-", "Antitarget"], ("CGH",)][int(rng.integers(0, 3))]
    w["loc_stats"] = ["mean", "median", "mode", "p_ttest"]
    w["spread_stats"] = ["stdev", "mad", "mse", "iqr", "bivar", "sem"]
    w["interval_stats"] = ["ci", "pi"]
    w["segs"] = None
    w["called"] = None
    return w


STEPS = ["segment", "segmetrics", "call", "genemetrics", "breaks", "bintest", "metrics", "export-bed", "export-vcf", "export-theta", "center", "algebra",
         "algebra", "algebra", "iterate", "target", "antitarget", "fix"]
METHODS = ["none", "haar", "hmm", "hmm-tumor", "hmm-germline"]


def plan(rng):
    n = int(rng.integers(1, 5))
    steps = []
    if rng.random() < 0.25:
        # the canonical pipeline: the filter list (with ci/sem entries) reaches do_call on a table that has the ci/sem columns
        return [("segment", {"method": METHODS[int(rng.integers(0, 5))], "skip_low": bool(rng.integers(0, 2)), "skip_outliers": int(rng.choice([0, 10]))}),
                ("segmetrics", {"bootstraps": int(rng.choice([20, 50])), "alpha": float(rng.choice([0.05, 0.2])), "smoothed": bool(rng.random() < 0.5)}),
                ("call", {"method": ["threshold", "clonal"][int(rng.integers(0, 2))], "purity": [None, 0.7][int(rng.integers(0, 2))], "ploidy": 2, "force_filters": True}),
                [("export-bed", {"show": "all"}), ("genemetrics", {}), ("export-vcf", {})][int(rng.integers(0, 3))]]
    if rng.random() < 0.75:
        steps.append(("segment", {"method": METHODS[int(rng.integers(0, 5))], "skip_low": bool(rng.integers(0, 2)), "skip_outliers": int(rng.choice([0, 10]))}))
    while len(steps) < n:
        s = STEPS[int(rng.integers(0, len(STEPS)))]
        steps.append((s, _params(rng, s)))
    return steps


UNIQUE_STEPS = list(dict.fromkeys(STEPS))


def _params(rng, s):
    if True:
        p = {}
        if s == "segment":
            p = {"method": METHODS[int(rng.integers(0, 5))], "skip_low": bool(rng.integers(0, 2)), "skip_outliers": int(rng.choice([0, 10]))}
        elif s == "call":
            p = {"method": ["threshold", "clonal", "none"][int(rng.integers(0, 3))], "purity": [None, 0.7][int(rng.integers(0, 2))], "ploidy": int(rng.integers(2, 4))}
        elif s == "segmetrics":
            p = {"bootstraps": int(rng.choice([20, 50])), "alpha": float(rng.choice([0.05, 0.2])), "smoothed": bool(rng.random() < 0.3)}
        elif s == "algebra":
            p = {"op": ["merge", "flatten", "subtract", "intersection", "subdivide", "resize_ranges"][int(rng.integers(0, 6))], "bp": int(rng.choice([0, 50, -20])),
                 "mode": ["outer", "trim", "inner"][int(rng.integers(0, 3))]}
        elif s == "center":
            p = {"estimator": ["median", "mean", "mode", "biweight"][int(rng.integers(0, 4))]}
        elif s == "fix":
            p = {"do_gc": bool(rng.integers(0, 2)), "do_edge": bool(rng.integers(0, 2)), "do_rmask": bool(rng.integers(0, 2))}
        elif s == "bintest":
            p = {"alpha": float(rng.choice([0.005, 0.5])), "target_only": bool(rng.integers(0, 2))}
        elif s == "export-bed":
            p = {"show": ["all", "variant", "ploidy"][int(rng.integers(0, 3))]}
        return p


def perturb_rng(k):
    np.random.seed(k % (2 ** 32))
    random.seed(k)
    np.random.random(int(k % 17))
    for _ in range(int(k % 5)):
        random.random()


def execute(w, step, params, procs):
    """One real library call on the world's shared objects."""
    import cnvlib.segmentation as S
    import cnvlib.segmetrics as SM
    import cnvlib.call as CL
    import cnvlib.reports as RP
    import cnvlib.bintest as BT
    import cnvlib.metrics as MT
    import cnvlib.export as EX
    import cnvlib.target as T
    import cnvlib.antitarget as AT
    import cnvlib.fix as FX
    cnr = w["cnr"]
    segs = w["segs"]
    if step == "segment":
        w["segs"] = S.do_segmentation(cnr, params["method"], skip_low=params["skip_low"], skip_outliers=params["skip_outliers"], processes=procs)
        w["called"] = None
    elif step == "segmetrics" and segs is not None:
        w["segs"] = SM.do_segmetrics(cnr, segs, w["loc_stats"], w["spread_stats"], w["interval_stats"], params["alpha"], params["bootstraps"], params["smoothed"])
    elif step == "call" and segs is not None:
        flt = w["filters"]
        if params.get("force_filters"):
            flt = w["ci_filters"]
        if flt and params["method"] == "none" and any(f in ("cn", "ampdel") for f in flt):
            flt = None
        if flt and not all(c in segs for c in ("ci_lo", "ci_hi", "sem")) and any(f in ("ci", "sem") for f in flt):
            flt = [f for f in flt if f not in ("ci", "sem")] if False else None
        if flt and any(f in ("ci", "sem") for f in flt):
            rt.current().extra["call-with-ci-or-sem-filter"] += 1
        w["called"] = CL.do_call(segs, None, params["method"], params["ploidy"], params["purity"] if params["method"] == "clonal" else None, False, True, None, flt, w["thresholds"])
    elif step == "genemetrics":
        RP.do_genemetrics(cnr, segs, 0.2, 2, False, False, True)
    elif step == "breaks" and segs is not None:
        RP.do_breaks(cnr, segs, 1)
    elif step == "bintest":
        BT.do_bintest(cnr, segs, params["alpha"], params["target_only"])
    elif step == "metrics" and segs is not None:
        MT.do_metrics(cnr, segs, False)
    elif step == "export-bed" and (w["called"] is not None or segs is not None):
        EX.export_bed(w["called"] if w["called"] is not None else segs, 2, False, None, True, "S", params["show"])
    elif step == "export-vcf" and (w["called"] is not None or segs is not None):
        EX.export_vcf(w["called"] if w["called"] is not None else segs, 2, False, None, True, "S", cnr)
    elif step == "export-theta" and segs is not None:
        EX.export_theta(segs, cnr)
    elif step == "center":
        c = cnr.copy()
        c.center_all(params["estimator"])
    elif step == "algebra":
        a, b = w["regions"], w["other"]
        op = params["op"]
        if op == "merge":
            a.merge(bp=params["bp"])
        elif op == "flatten":
            a.flatten()
        elif op == "subtract":
            a.subtract(b)
        elif op == "intersection":
            a.intersection(b, mode=params["mode"])
        elif op == "subdivide":
            a.subdivide(400, 100)
        else:
            a.resize_ranges(params["bp"])
    elif step == "iterate":
        list(cnr.by_arm())
        list(cnr.by_gene(w["ignore"]))
    elif step == "target":
        T.do_target(w["regions"], None, False, True, 300)
    elif step == "antitarget":
        AT.do_antitarget(w["regions"], None, 20000, 2000)
    elif step == "fix":
        FX.do_fix(w["tgt"], w["anti"], w["ref"], None, params["do_gc"], params["do_edge"], params["do_rmask"])


def run_sequence(run, key, steps, variant):
    """variant 0 serial; 1 other worker counts; 2 RNG perturbed; 3 after unrelated calls."""
    w = make_world(key, run)
    procs = 1
    if variant == 3:
        # unrelated history first, on another world
        w2 = make_world(key + ("other",), run)
        run._tls.pure_ctx = {"variant": variant, "rng": "default", "history": "warm-up"}
        for s, p in (("segment", {"method": "haar", "skip_low": False, "skip_outliers": 10}), ("segmetrics", {"bootstraps": 20, "alpha": 0.05, "smoothed": False}), ("fix", {"do_gc": True, "do_edge": True, "do_rmask": True})):
            try:
                execute(w2, s, p, 1)
            except Exception:
                pass
    for k, (s, p) in enumerate(steps):
        if variant == 1:
            procs = [2, 3, 16][(k + len(steps)) % 3]
        rng_tag = "default"
        if variant == 2:
            perturb_rng(977 * (k + 1) + len(s))
            rng_tag = f"seeded-{977 * (k + 1) + len(s)}"
        run._tls.pure_ctx = {"variant": variant, "rng": rng_tag, "history": "after-unrelated-calls" if variant == 3 else "fresh", "step": k}
        try:
            execute(w, s, p, procs)
        except Exception:
            pass
    run._tls.pure_ctx = None


def _n(tier):
    return 160 if tier == "quick" else 2000


def case_sequence(run, i):
    rng = run.rng("seq", i)
    steps = plan(rng)
    # every operation in turn closes a sequence, so that each one's counters do not hang on the draw
    forced = UNIQUE_STEPS[i % len(UNIQUE_STEPS)]
    steps = steps[:3] + [(forced, _params(rng, forced))]
    run.begin_case("sequence", i, cls="seq:" + "+".join(s for s, _ in steps)[:60], steps=[[s, p] for s, p in steps])
    for variant in range(4):
        run_sequence(run, ("world", i), steps, variant)
    run.__dict__.get("_pure_hist", {}).clear()
    run.end_case(fp=rt.fingerprint([[s, sorted(p.items())] for s, p in steps] + [i], 12), nontrivial=True,
                 sample={"steps": [[s, p] for s, p in steps]} if i % 41 == 0 else None)


def _n_every(tier):
    return 12 if tier == "quick" else 60


def case_everywhere(run, i):
    """Executed in every shard (different processes, four hash seeds)."""
    rng = run.rng("seq-every", i)
    steps = plan(rng)
    forced = UNIQUE_STEPS[(5 * i + 3) % len(UNIQUE_STEPS)]
    steps = steps[:3] + [(forced, _params(rng, forced))]
    run.begin_case("everywhere", i, cls="every-shard", steps=[[s, p] for s, p in steps])
    run._tls.pure_xp = {"case": i, "n": 0}
    run_sequence(run, ("world-every", i), steps, 0)
    run._tls.pure_xp = None
    run.__dict__.get("_pure_hist", {}).clear()
    run.end_case(fp=rt.fingerprint(["every", i], 12), nontrivial=True)


# ---- writers: k writes to one path leave k files

def _n_write(tier):
    return 24 if tier == "quick" else 200


def case_write(run, i):
    from cnvlib import commands
    rng = run.rng("write", i)
    d = os.path.join(run.workdir, f"write{run.shard}_{i}")
    os.makedirs(os.path.join(d, "sub"), exist_ok=True)
    k = int(rng.integers(1, 6))
    out = os.path.join(d, "sub", "new", "ref.cnn") if i % 3 == 0 else os.path.join(d, "ref.cnn")
    run.begin_case("write", i, cls=f"writes:{k}", writes=k)
    contents = []
    mon = "writers[k-writes-k-files]"
    ok = True
    for j in range(k):
        bed = os.path.join(d, f"t{j}.bed")
        with open(bed, "w") as fh:
            for r in range(j + 2):
                fh.write(f"chr1\t{100 * r + j}\t{100 * r + 50 + j}\tG{j}\n")
        try:
            args = commands.parse_args(["reference", "-t", bed, "-o", out] + (["-y"] if j % 2 else []))
            args.func(args)
        except Exception as exc:
            run.extra[f"write-raised:{type(exc).__name__}"] += 1
            ok = False
            break
        with open(out, "rb") as fh:
            contents.append(fh.read())
    if ok:
        fam = sorted(f for f in os.listdir(os.path.dirname(out)) if f.startswith("ref.cnn"))
        have = []
        for f in fam:
            with open(os.path.join(os.path.dirname(out), f), "rb") as fh:
                have.append(fh.read())
        if len(fam) != k or sorted(have) != sorted(contents):
            run.violate(mon, "overwritten-or-lost-output", f"{k} writes to one path left {len(fam)} files {fam}; {sum(1 for c in contents if c not in have)} contents lost",
                        {"writes": k, "files": fam})
        else:
            run.held(mon, f"writes:{k}")
    shutil.rmtree(d, ignore_errors=True)
    run.end_case(fp=rt.fingerprint(["write", i, k], 12), nontrivial=k > 1)


WORKLOADS = {"sequence": (_n, case_sequence), "everywhere": (_n_every, case_everywhere, True), "write": (_n_write, case_write)}
_Q = {"purity|held": 3000, "core.ensure_path|held": 40, "writers[k-writes-k-files]|held": 20,
      "extra:agreed-across-worker-counts:segment": 40, "extra:agreed-across-rng-states:segmetrics": 5, "extra:agreed-across-rng-states:fix": 5,
      "extra:agreed-across-call-histories:segment": 30, "extra:call-with-ci-or-sem-filter": 60, "extra:cross-process-groups-compared": 40}
for _op, _min in (("segment", 200), ("segmetrics", 100), ("call", 100), ("fix", 60), ("genemetrics", 40), ("bintest", 15), ("breaks", 8), ("metrics", 15), ("export-bed", 30),
                  ("export-vcf", 30), ("export-theta", 6), ("target", 20), ("antitarget", 20), ("ga.merge", 8), ("ga.flatten", 8), ("ga.subtract", 20), ("ga.intersection", 5),
                  ("ga.subdivide", 40), ("ga.resize_ranges", 40), ("ga.by_arm", 500), ("cna.by_gene", 100), ("cna.center_all", 100)):
    _Q[f"class:op:{_op}"] = _min
QUOTAS = {"quick": _Q, "thorough": {k: v * (6 if "cross" not in k else 3) for k, v in _Q.items()}}


def post_merge(m, tier):
    """After the shards are merged: a (case, step, op) group executed in several
    processes / hash seeds must have produced one result fingerprint."""
    viol = []
    groups = 0
    for name, fps in m["sets"].items():
        if not name.startswith("xp|"):
            continue
        groups += 1
        if len(fps) > 1:
            _, case, step, op = name.split("|")
            viol.append((f"result-differs-across-processes:{op}", {"property": "C10", "monitor": "purity[cross-process]", "mech": f"result-differs-across-processes:{op}",
                         "detail": f"sequence {case} step {step} ({op}) gave {len(fps)} different results in different shard processes / hash seeds",
                         "case": {"workload": "everywhere", "index": int(case)}, "witness": {"fingerprints": sorted(fps)}, "tier": tier, "seed": 0}))
    m["extra"]["cross-process-groups-compared"] = groups
    for k in [k for k in m["sets"] if k.startswith("xp|")]:
        del m["sets"][k]
    return viol


def evidence_extra(m, tier):
    ex = m["extra"]
    return {"schedules": {"worker_counts": [1, 2, 3, 16], "hash_seeds": HASHSEEDS, "shard_processes": 16,
                          "agreements": {k: v for k, v in sorted(ex.items()) if k.startswith(("agreed-", "repeat-agreed", "cross-process"))}}}
