"""C15 — centring is a uniform shift zeroing the autosomes; sample sex is
inferred right.  Monitors on center_all (pre/post: uniformity and amount),
guess_xx / compare_sex_chromosomes / do_sex (against the generated sex),
shift_xx and expect_flat_log2; the C19 estimator monitors stay attached.
"""
import numpy as np

from .. import runtime as rt
from ..gen import make_cna
from ..models import copynumber as CN
from ..monitors import centering, robust

TITLE = "Centring is a uniform shift zeroing the autosomes; sex inferred right"
RULE = ("centring: tables of 1..24 chromosomes in either naming style or with no autosome-like names, arbitrary per-chromosome levels, null-coverage "
        "bins (log2 -20 / depth 0), constant chromosomes, PAR-X bins; every estimator x by_chrom x skip_low x PAR genome. sex: generated samples "
        "(sex x reference sex x Y present/absent x weights present/absent x noise sd 0.01..0.3 x 40..400 chrX bins x 1..22 autosomes of 20..200 "
        "bins; chrX/chrY at the levels the docstring states for that sex and reference, female chrY at -4) through guess_xx, "
        "compare_sex_chromosomes, do_sex, shift_xx, expect_flat_log2. Distinct by table fingerprint.")
ASSUMPTIONS = [
    "the amount of the shift is compared with the estimator recomputed independently on the pre-call values (mean, median, biweight model, KDE peak); "
    "for mode/biweight the comparison is skipped (uniformity still judged) when the KDE peak is not unique by 1e-6 or c*MAD is below the documented floor",
    "sex clauses are asserted on every generated sample (design-phase base rate: 0 wrong in 3,000 samples at the same ranges)",
    "expect_flat_log2 is judged without a PAR genome (the statement does not say what PAR bins should be)",
]
BUDGET_S = {"quick": 600, "thorough": 2400}
EST = ("median", "mean", "biweight", "mode")


def setup(run):
    t = centering.attach_all(run, rt)
    t += robust.attach_all(run, rt)
    return t


def _n_center(tier):
    return 320 if tier == "quick" else 5000


def case_center(run, i):
    rng = run.rng("center", i)
    style = i % 5
    nchr = int(rng.integers(1, 25))
    if style == 4:
        names = [f"scaffold_{k}" for k in range(nchr)]                  # nothing named like an autosome
        if rng.random() < 0.6:
            names.append("X")                                           # ... but an X chromosome (label "X": the first name has no chr prefix)
    else:
        pre = "chr" if style % 2 else ""
        names = [pre + str(k) for k in range(1, min(nchr, 22) + 1)] + ([pre + "X"] if nchr > 22 or rng.random() < 0.5 else []) + ([pre + "Y"] if nchr > 23 or rng.random() < 0.3 else [])
    par = [None, None, "grch37", "grch38"][int(rng.integers(0, 4))] if (style != 4 or "X" in names) else None
    cols = {k: [] for k in ("chromosome", "start", "end", "gene", "log2", "depth", "weight")}
    for c in names:
        level = float(rng.choice([0.0, 0.3, -1.0, 2.5, float(rng.normal(0, 1))]))
        n = int(rng.choice([1, 2, 3, 10, 40, 120]))
        const = rng.random() < 0.1
        starts = None
        if par and c.endswith("X"):
            px = CN.PAR[par]["X"]
            starts = np.concatenate([px[0][0] + 100_000 + np.arange(n // 2) * 1000, 30_000_000 + np.arange(n - n // 2) * 1000])
        for k in range(n):
            s = int(starts[k]) if starts is not None else 1_000_000 + k * 1000
            null = rng.random() < 0.08
            cols["chromosome"].append(c); cols["start"].append(s); cols["end"].append(s + 900); cols["gene"].append("G")
            cols["log2"].append(-20.0 if null else (level if const else level + float(rng.normal(0, 0.2))))
            cols["depth"].append(0.0 if null or rng.random() < 0.02 else float(rng.uniform(1, 100)))
            cols["weight"].append(0.0 if rng.random() < 0.06 else float(rng.uniform(0.1, 1)))      # masked (weight 0) bins are ordinary bins for centring
    if i % 3 == 0:
        del cols["depth"]
    # row order: genome order; every chromosome in two separate blocks (targets stacked on antitargets without re-sorting); shuffled
    order_kind = ["sorted", "sorted", "stacked", "shuffled"][(i // 5) % 4]
    n_rows = len(cols["log2"])
    if order_kind == "stacked":
        half = rng.random(n_rows) < 0.5
        perm = np.concatenate([np.nonzero(half)[0], np.nonzero(~half)[0]])
    elif order_kind == "shuffled":
        perm = rng.permutation(n_rows)
    else:
        perm = np.arange(n_rows)
    use_cols = {k: [v[j] for j in perm] for k, v in cols.items()}
    run.begin_case("center", i, cls=f"center:style{style}:{order_kind}")
    for est in EST:
        for by_chrom in (True, False):
            skip_low = bool(rng.integers(0, 2))
            cna = make_cna(use_cols, odd=(i % 3 == 1), meta="none" if i % 4 == 1 else None)
            try:
                cna.center_all(est, by_chrom, skip_low, False, par)
            except Exception:
                pass
    run.end_case(fp=rt.fingerprint([cols["chromosome"], cols["log2"], par], 12), nontrivial=len(cols["log2"]) > 1,
                 sample={"chromosomes": names[:6], "log2": cols["log2"][:6], "par": par} if i % 101 == 0 else None)


def _n_sex(tier):
    return 640 if tier == "quick" else 8000


def case_sex(run, i):
    import cnvlib.commands as K
    rng = run.rng("sex", i)
    female = bool(i % 2)
    male_ref = bool((i // 2) % 2)
    has_y = bool((i // 4) % 2)
    weights = bool((i // 8) % 2)
    sd = float(rng.choice([0.01, 0.05, 0.1, 0.2, 0.3, float(rng.uniform(0.01, 0.3))]))
    pre = "chr" if rng.random() < 0.5 else ""
    nauto = int(rng.integers(1, 23))
    cols = {k: [] for k in ("chromosome", "start", "end", "gene", "log2", "weight")}

    def add(c, n, level):
        for k in range(n):
            cols["chromosome"].append(c); cols["start"].append(5_000_000 + k * 2000); cols["end"].append(5_000_000 + k * 2000 + 1500)
            cols["gene"].append("G"); cols["log2"].append(level + float(rng.normal(0, sd))); cols["weight"].append(float(rng.uniform(0.3, 1.0)))
    for k in range(1, nauto + 1):
        add(pre + str(k), int(rng.integers(20, 201)), 0.0)
    x_level = (1.0 if female else 0.0) if male_ref else (0.0 if female else -1.0)
    add(pre + "X", int(rng.integers(40, 401)), x_level)
    if has_y:
        add(pre + "Y", int(rng.integers(5, 80)), -4.0 if female else 0.0)
    if not weights:
        del cols["weight"]
    truth = {"female": female, "male_ref": male_ref, "has_y": has_y, "weights": weights, "sd": sd}
    run.begin_case("sex", i, cls=f"sex:{'F' if female else 'M'}:{'maleref' if male_ref else 'femaleref'}", sex=truth)
    cna = make_cna(cols, meta=("none" if i % 4 == 1 else {"sample_id": "S", "filename": "S.cnr"}), odd=(i % 3 == 1))
    # the `sex` report names each sample's file, so it is only given tables that carry their metadata
    for fn in (lambda: cna.guess_xx(male_ref, None, False), (lambda: K.do_sex([cna], male_ref, None)) if i % 4 != 1 else (lambda: None),
               lambda: cna.shift_xx(male_ref, None), lambda: cna.shift_xx(male_ref, female), lambda: cna.shift_xx(not male_ref, female),
               lambda: cna.expect_flat_log2(male_ref), lambda: cna.expect_flat_log2(not male_ref)):
        try:
            fn()
        except Exception as exc:
            run.violate("sex-workload", f"sex-call-raises-{type(exc).__name__}", f"{exc!r}", truth)
    if i % 6 == 3:
        # `call --center EST [--drop-low-coverage]`: the estimator and the low-coverage switch must reach center_all (per-chromosome mode)
        import os
        from skgenome import tabio
        from cnvlib.cnary import CopyNumArray
        from ..monitors import cli_plumb
        d = os.path.join(run.workdir, f"cli15c_{run.shard}_{i}")
        os.makedirs(d, exist_ok=True)
        pin, pout = os.path.join(d, "Smp.cns"), os.path.join(d, "Smp.call.cns")
        c2 = dict(cols)
        c2["probes"] = [5] * len(cols["log2"])
        if "weight" not in c2:
            c2["weight"] = [1.0] * len(cols["log2"])
        with run.monitor_scope():
            tabio.write(make_cna(c2, meta={"sample_id": "Smp"}), pin)
        est = ["median", "mean", "mode", "biweight"][(i // 6) % 4]
        low = bool((i // 24) % 2)
        argv = ["call", pin, "-o", pout, "--center", est, "-m", "none"] + (["--drop-low-coverage"] if low else [])
        r = cli_plumb.check_cli(run, rt, CopyNumArray, "center_all", argv, dict(estimator=est, by_chrom=True, skip_low=low, diploid_parx_genome=None), "call-center")
        if r is not None:
            cli_plumb.held(run, "call-center", f"cli-call-center:{est}")
        import shutil
        shutil.rmtree(d, ignore_errors=True)
    if i % 6 == 0:
        # the `sex` sub-command on a written file: -y must reach the inference, the report must name this file and state the generated sex
        import csv
        import os
        from skgenome import tabio
        d = os.path.join(run.workdir, f"cli15_{run.shard}_{i}")
        os.makedirs(d, exist_ok=True)
        pin, pout = os.path.join(d, "Smp.cnr"), os.path.join(d, "sex.tsv")
        with run.monitor_scope():
            tabio.write(make_cna(cols, meta={"sample_id": "Smp"}), pin)
        mon = "cli.sex[report]"
        try:
            a = K.parse_args(["sex", pin, "-o", pout] + (["-y"] if male_ref else []))
            a.func(a)
            with open(pout) as fh:
                rows = list(csv.DictReader(fh, delimiter="\t"))
            want = "Female" if female else "Male"
            if len(rows) != 1 or os.path.basename(rows[0]["sample"]) != "Smp.cnr":
                run.violate(mon, "sex-cli-report-rows", f"report rows {rows} for one input file Smp.cnr", truth)
            elif rows[0]["sex"] != want:
                run.violate(mon, "sex-cli-reports-wrong-sex", f"`sex{' -y' if male_ref else ''}` reports {rows[0]['sex']} for a generated {want.lower()} sample", truth)
            else:
                run.held(mon, f"cli-sex:{want}:{'maleref' if male_ref else 'femaleref'}")
        except Exception as exc:
            run.violate(mon, f"sex-cli-raises-{type(exc).__name__}", f"{exc!r}", truth)
        import shutil
        shutil.rmtree(d, ignore_errors=True)
    run.end_case(fp=rt.fingerprint([cols["log2"][:50], truth], 12), nontrivial=True, sample={"truth": truth, "n_bins": len(cols["log2"])} if i % 211 == 0 else None)


WORKLOADS = {"center": (_n_center, case_center), "sex": (_n_sex, case_sex)}
_Q = {"cli.sex[report]|held": 40, "cli.call-center[plumbing]|held": 40, "CopyNumArray.center_all|held": 1500, "CopyNumArray.guess_xx|held": 600, "CopyNumArray.compare_sex_chromosomes|held": 1200,
      "commands.do_sex|held": 450, "CopyNumArray.shift_xx|held": 1800, "CopyNumArray.expect_flat_log2|held": 1200}
QUOTAS = {"quick": _Q, "thorough": _Q}

INTERNAL_MONITORS = {"CopyNumArray.compare_sex_chromosomes": []}