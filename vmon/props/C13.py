"""C13 — access lists exactly the non-N runs of the genome, joined and excluded
as asked.  A generator-collecting monitor on access.get_regions and a
post-monitor on access.do_access compare with a plain character scan of the
same FASTA text, base-set subtraction of the exclude files and greedy joining.
"""
import os

import numpy as np

from .. import runtime as rt
from ..monitors import binning, ga_algebra

TITLE = "access lists exactly the non-N runs, joined and excluded as asked"
RULE = ("FASTA texts of 1..4 sequences (incl. header-only ones) built from runs of N / n / ACGT / acgt of length 0..200, written with line widths "
        "1..80 so that runs start, end on and straddle line breaks (final line with or without newline, headers with descriptions); 0..3 exclude BEDs "
        "(overlapping, nested, edge-touching, out-of-range rows); min gap 0..300 and None; skip_noncanonical on/off over canonical and "
        "alt/random/Un/HLA/EBV/mitochondrial names; also through the CLI (access -s -x). Distinct by fingerprint of (text, excludes, options).")
ASSUMPTIONS = [
    "only upper-case 'N' is inaccessible (as the statement says); blank lines inside a record and duplicate sequence names are not generated",
    "exclude rows have positive length (a zero-width exclude row is counted out-of-domain)",
]
BUDGET_S = {"quick": 600, "thorough": 2400}
NAMES_CANON = ["chr1", "2", "chrX", "chr17", "Y", "chr3"]
NAMES_NONCANON = ["chrM", "MT", "chrUn_gl000220", "chr1_random", "HLA-A", "chrEBV", "chr6_alt"]


def setup(run):
    t = binning.attach_c13(run, rt)
    t += ga_algebra.attach_all(run, rt, which=("subtract",))
    return t


def _sequence(rng):
    parts = []
    k = int(rng.integers(0, 9))
    for _ in range(k):
        kind = str(rng.choice(["N", "N", "n", "A", "a", "M"]))
        ln = int(rng.choice([0, 1, 2, 3, 5, 10, 60, 61, 80, 120, 200, int(rng.integers(0, 201))]))
        if kind == "N":
            parts.append("N" * ln)
        elif kind == "n":
            parts.append("n" * ln)
        elif kind == "A":
            parts.append("".join(rng.choice(list("ACGT"), ln)))
        elif kind == "a":
            parts.append("".join(rng.choice(list("acgt"), ln)))
        else:
            parts.append("".join(rng.choice(list("ACGTNNacgtn"), ln)))     # dense mixture
    return "".join(parts)


def _n(tier):
    return 480 if tier == "quick" else 6400


def case_fasta(run, i):
    import cnvlib.access as A
    import cnvlib.commands as K
    rng = run.rng("fasta", i)
    d = os.path.join(run.workdir, f"a{run.shard}_{i}")
    os.makedirs(d, exist_ok=True)
    nseq = int(rng.integers(1, 5))
    names = list(rng.choice(NAMES_CANON + NAMES_NONCANON, nseq, replace=False))
    width = int(rng.choice([1, 2, 3, 7, 10, 50, 60, 61, 80, int(rng.integers(1, 81))]))
    text = []
    seqs = {}
    for n in names:
        seq = "" if rng.random() < 0.12 else _sequence(rng)
        seqs[n] = seq
        text.append(">" + n + (" some description N" if rng.random() < 0.3 else "") + "\n")
        for k in range(0, len(seq), width):
            text.append(seq[k:k + width] + "\n")
    blank = rng.random() < 0.12
    if blank:
        # blank lines, as left by editors and concatenation: at the end of the file, between records, inside a sequence
        where = int(rng.integers(0, 3))
        if where == 0:
            text.append("\n")
        else:
            k = int(rng.integers(1, len(text) + 1))
            if where == 1:
                heads = [j for j, t in enumerate(text) if t.startswith(">") and j > 0]
                k = int(rng.choice(heads)) if heads else len(text)
            text.insert(k, "\n")
        run.extra["fasta-texts-with-a-blank-line"] += 1
    text = "".join(text)
    if not blank and rng.random() < 0.3 and text.endswith("\n") and not text.rstrip("\n").endswith(">" + names[-1]):
        text = text[:-1]                     # final line without newline
    fa = os.path.join(d, "g.fa")
    with open(fa, "w") as fh:
        fh.write(text)
    ex_files = []
    for k in range(int(rng.choice([0, 0, 1, 2, 3]))):
        rows = []
        for _ in range(int(rng.integers(1, 8))):
            n = str(rng.choice(names))
            L = max(len(seqs[n]), 10)
            s = int(rng.integers(0, L + 20))
            e = s + int(rng.choice([1, 2, 5, 30, 100, L]))
            rows.append((n, s, e))
            if rng.random() < 0.3 and e - s > 3:
                rows.append((n, s + 1, e - 1))          # nested
            if rng.random() < 0.3:
                rows.append((n, e, e + 7))              # abutting
        p = os.path.join(d, f"x{k}.bed")
        with open(p, "w") as fh:
            for r in rows:
                fh.write("\t".join(map(str, r)) + "\n")
        ex_files.append(p)
    mg = [None, 0, 1, 2, 5, 50, 300, int(rng.integers(0, 301))][int(rng.integers(0, 8))]
    skip = bool(rng.integers(0, 2))
    run.begin_case("fasta", i, cls=f"fasta:w{min(width, 9) if width < 10 else '10+'}")
    try:
        list(A.get_regions(fa))
    except Exception as exc:
        run.violate("access.get_regions", f"get_regions-raises-{type(exc).__name__}", f"{exc!r}", {"fasta": text[:3000]})
    try:
        A.do_access(fa, ex_files, mg, skip)
    except Exception:
        pass
    if i % 5 == 0:
        # the command line path: access FASTA -s N -x BED -o out (always skips non-canonical contigs)
        out = os.path.join(d, "out.bed")
        argv = ["access", fa, "-s", str(mg or 0), "-o", out]
        for p in ex_files:
            argv += ["-x", p]
        from ..monitors import cli_plumb
        r = cli_plumb.check_cli(run, rt, A, "do_access", argv, dict(fa_fname=fa, exclude_fnames=list(ex_files), min_gap_size=int(mg or 0)), "access")
        if r is not None:
            got, res, wit = r
            run.extra["cli-access-runs"] += 1
            import gc
            gc.collect()            # the FileType('w') handle argparse opened is flushed when collected
            if not isinstance(res, Exception):
                try:
                    with open(out) as fh:
                        rows = [(f[0], int(f[1]), int(f[2])) for f in (ln.rstrip("\n").split("\t") for ln in fh if ln.strip())]
                except OSError:
                    rows = None
                want = [(c, int(s_), int(e)) for c, s_, e in zip(res.data["chromosome"], res.data["start"], res.data["end"])]
                if rows is not None and rows != want and rows:
                    run.violate("cli.access[plumbing]", "access-cli-file-differs-from-result", f"{len(rows)} BED lines written, {len(want)} regions returned", wit)
                else:
                    cli_plumb.held(run, "access", "cli-access")
    import shutil
    shutil.rmtree(d, ignore_errors=True)
    run.end_case(fp=rt.fingerprint([text, mg, skip, len(ex_files)], 12), nontrivial=any(seqs.values()),
                 sample={"fasta": text[:200], "min_gap": mg, "skip": skip, "n_exclude_files": len(ex_files)} if i % 97 == 0 else None)


WORKLOADS = {"fasta": (_n, case_fasta)}
_Q = {"access.get_regions|held": 400, "access.do_access|held": 450}     # get_regions: what the direct calls of the workload alone give (do_access need not route through it)
QUOTAS = {"quick": _Q, "thorough": _Q}

INTERNAL_MONITORS = {"access.get_regions": []}