"""C08 — every format is read to 0-based half-open, sorted; write-then-read is
lossless.  Monitors on tabio.read / tabio.write (vmon/monitors/tabio_mon.py)
check sortedness of every read, compare reads of generated files with the
generator's truth (the files are produced by independent serialisers), pair
every write with the later read of the same path, and require a re-write of a
read-back table to be byte-identical.  SEG goes through export_seg + parse_seg
and the import-seg command.
"""
import os
import shutil

import numpy as np
import pandas as pd

from .. import runtime as rt
from ..models import formats as F
from ..monitors import tabio_mon as TM

TITLE = "Formats read to 0-based half-open, sorted; write->read lossless"
RULE = ("formats: region tables of 1..200 rows (chromosome names over letters/digits/underscore/dot, with/without chr, alt/random/Un contigs; shuffled "
        "order; coordinates 0..3e8 incl. start 0; duplicate rows; gene labels with commas/dots/dashes) serialised independently as BED3/4/6/7+, "
        "interval list, chr:start-end text, GFF, tab, Picard per-target, VCF (SNV and END records) and read with the explicit format and with "
        "auto-detection (names without dots); roundtrip: tables with extra int/float columns (1e-300..1e300, NaN) written as tab, bed, bed3, bed4, "
        "interval, text, read back and written again; seg: 1..4 samples through export_seg -> parse_seg and the import-seg command. Distinct by "
        "table fingerprint; non-trivial with >= 2 rows.")
ASSUMPTIONS = [
    "the order among non-canonical contigs is not asserted (the statement is silent); canonical ones (digits, X, Y, M) must be in natural order, every chromosome contiguous and sorted by start then end",
    "auto-detection is only driven with names of letters, digits and underscores (as the statement says) and not with BED5 lines whose name is one of . + -",
    "gene labels avoid quotes, tabs and '@' (interval-list comment character); they do include numeric-looking IDs and the words a parser may take for 'missing' (NA, null, None, nan, N/A)",
    "for VCF the SNV end is asserted for the pysam-backed reader ('vcf'); the simple readers are judged on start and on END-tagged records",
    "text format carries coordinates only; BED carries coordinates and name",
]
BUDGET_S = {"quick": 600, "thorough": 2400}
GENES = ["TP53", "BRCA2", "HLA-A", "A,B", "x.1", "C-1_2", "-", "MIR1-1HG", "a|b", "p.(=)"]


def setup(run):
    import cnvlib
    t = TM.attach_all(run, rt)
    return t


def _chrom_names(rng, dots):
    pre = "chr" if rng.random() < 0.5 else ""
    pool = [pre + x for x in ("1", "2", "3", "10", "11", "19", "22", "X", "Y", "M")]
    # alt/random/Un contigs, incl. families that share a stem and differ only in later digits
    odd = [pre + "1_random", pre + "Un_gl000220", pre + "Un_gl000221", pre + "6_GL000250v2_alt", pre + "6_GL000251v2_alt", pre + "1_gl000191_random",
           pre + "1_gl000192_random", "GL000192", "GL000191", "scaffold_12", "scaffold_13", "MT" if not pre else "chrEBV"]
    if dots:
        odd += ["GL000192.1", "KI270728.1", pre + "Un.7"]
    k = int(rng.integers(1, 7))
    names = list(rng.choice(pool, min(k, len(pool)), replace=False))
    if rng.random() < 0.5:
        names += list(rng.choice(odd, int(rng.integers(1, 5)), replace=False))
    return names


def _rows(rng, dots=False, n=None):
    names = _chrom_names(rng, dots)
    n = n or int(rng.choice([1, 2, 3, 10, 50, 200]))
    rows = []
    r0 = rng.random()
    # names are text: a table of numeric probe IDs (every label looks like a number), or labels among which are the words a parser may take for "missing"
    pool = ["007", "12", "1e5", "3.50", "0012"] if r0 < 0.12 else GENES + ["NA", "null", "None", "nan", "N/A", "NULL"] if r0 < 0.27 else GENES
    for _ in range(n):
        c = str(rng.choice(names))
        s = int(rng.choice([0, 1, 9, 10, 99, 100, 999, 1000, int(rng.integers(0, 3 * 10**8))]))
        e = s + int(rng.choice([1, 2, 10, 100, int(rng.integers(1, 10**6))]))
        rows.append((c, s, e, str(rng.choice(pool))))
    if n > 2 and rng.random() < 0.4:
        rows.append(rows[0])                      # duplicate row
        rows.append((rows[1][0], rows[1][1], rows[1][2] + 5, rows[1][3]))   # same start, different end
    if rng.random() < 0.25:
        # already ordered by chromosome and start (as `sort -k1,1V -k2,2n` leaves it), equal starts listed longest first
        return sorted(rows, key=lambda r: (F.canon_key(r[0]) or (9, 0), r[0], r[1], -r[2]))
    order = rng.permutation(len(rows))
    return [rows[i] for i in order]


def _safe(fn, *a, **k):
    try:
        return fn(*a, **k)
    except Exception as exc:
        return exc


def _n_formats(tier):
    return 160 if tier == "quick" else 2400


def case_formats(run, i):
    import skgenome.tabio as T
    rng = run.rng("formats", i)
    dots = (i % 3 == 0)
    rows = _rows(rng, dots)
    d = os.path.join(run.workdir, f"f{run.shard}_{i}")
    os.makedirs(d, exist_ok=True)
    run.begin_case("formats", i, cls="formats:" + ("dots" if dots else "autodetectable"))
    files = {
        "bed3": ("x.bed3", F.to_bed(rows, 3), ["bed", "bed3"], False),
        "bed4": ("x.bed4", F.to_bed(rows, 4, track=bool(rng.integers(0, 2))), ["bed", "bed4"], True),
        "bed6": ("x.bed6", F.to_bed(rows, 6), ["bed", "bed4"], True),
        "bed7": ("x.bed7", F.to_bed(rows, 7), ["bed"], True),
        "interval": ("x.interval_list", F.to_interval([r for r in rows], header=bool(rng.integers(0, 2)),
                                                          strands=[("+",), ("-",), (".",), ("+", "-", ".")][int(rng.integers(0, 4))]), ["interval"], True),
        "text": ("x.txt", F.to_text(rows, with_gene=bool(rng.integers(0, 2))), ["text"], False),
        "gff": ("x.gff", F.to_gff(rows, version_line=bool(rng.integers(0, 2))), ["gff"], True),
        "tab": ("x.tsv", F.to_tab(rows), ["tab"], True),
        "picardhs": ("x.hs", F.to_picardhs(rows), ["picardhs"], True),
    }
    genes_ok = all("@" not in r[3] for r in rows)
    for kind, (fn, text, fmts, gene) in files.items():
        p = os.path.join(d, fn)
        with open(p, "w") as fh:
            fh.write(text)
        if kind == "text" and "\t" in text:
            gene = True
        TM.register_truth(p, rows, kind, gene=gene)
        for fmt in fmts:
            r = _safe(T.read, p, fmt)
            if isinstance(r, Exception):
                run.violate("tabio.read[truth]", f"read-{kind}-as-{fmt}-raises-{type(r).__name__}", f"reading a valid {kind} file raised {r!r}", {"rows": rows[:20], "text": text[:400]})
        if not dots and kind in ("bed3", "bed4", "bed6", "bed7", "interval", "text", "gff", "tab"):
            if kind in ("bed6", "bed7", "bed4") or True:
                r = _safe(T.read_auto, p)
                if isinstance(r, Exception):
                    run.violate("tabio.read[truth]", f"auto-{kind}-raises-{type(r).__name__}", f"auto-detecting a valid {kind} file raised {r!r}", {"rows": rows[:20], "text": text[:400]})
    # VCF: SNVs (end = start + 1) and END-tagged records
    vrows = sorted({(r[0], r[1]): r for r in rows}.values())
    for with_end in (False, True):
        p = os.path.join(d, f"x{int(with_end)}.vcf")
        with open(p, "w") as fh:
            fh.write(F.to_vcf(vrows, with_end))
        truth = [(c, s, (e if with_end else s + 1), g) for c, s, e, g in vrows]
        TM.register_truth(p, truth, "vcf", gene=False, end=True)
        r = _safe(T.read, p, "vcf")
        if isinstance(r, Exception):
            run.violate("tabio.read[truth]", f"read-vcf-raises-{type(r).__name__}", f"{r!r}", {"rows": vrows[:20]})
        if not dots:
            _safe(T.read_auto, p)
        # simple readers: start (and END where tagged)
        p2 = os.path.join(d, f"s{int(with_end)}.vcf")
        shutil.copy(p, p2)
        TM.register_truth(p2, truth, "vcf", gene=False, end=with_end)
        _safe(T.read, p2, "vcf-sites")
        _safe(T.read, p2, "vcf-simple")
    shutil.rmtree(d, ignore_errors=True)
    run.end_case(fp=rt.fingerprint(rows, 12), nontrivial=len(rows) >= 2, sample={"rows": rows[:4]} if i % 79 == 0 else None)


# -------------------------------------------------------------- write -> read

def _n_round(tier):
    return 160 if tier == "quick" else 2400


def _float_col(rng, n):
    kind = int(rng.integers(0, 5))
    if kind == 0:
        v = rng.normal(0, 1, n)
    elif kind == 1:
        v = 10.0 ** rng.uniform(-300, 300, n) * rng.choice([-1, 1], n)
    elif kind == 2:
        v = np.round(rng.normal(0, 3, n))            # integral floats
    elif kind == 3:
        v = rng.choice([0.0, 1.0, 0.5, 123456.5, 1234567.0, 0.1 + 0.2, 1e-7, 999999.5, 9.999995], n)
    else:
        v = rng.normal(0, 1, n)
        v[rng.random(n) < 0.2] = np.nan
    if kind == 2 and rng.random() < 0.5:
        return v        # rounding small negative values leaves negative zeros in a whole-number column (known finding KF4)
    return v + 0.0      # no negative zero


def case_round(run, i):
    import skgenome.tabio as T
    from skgenome import GenomicArray as GA
    from cnvlib.cnary import CopyNumArray as CNA
    rng = run.rng("round", i)
    rows = _rows(rng, dots=(i % 4 == 0))
    kind = i % 3
    if kind == 2:
        rows = list({r[:3]: r for r in rows}.values())     # float columns: unique coordinates, so rows can be matched one to one
    n = len(rows)
    d = os.path.join(run.workdir, f"r{run.shard}_{i}")
    os.makedirs(d, exist_ok=True)
    cols = {"chromosome": [r[0] for r in rows], "start": [r[1] for r in rows], "end": [r[2] for r in rows], "gene": [r[3] for r in rows]}
    if kind == 0:
        arr = GA(pd.DataFrame({k: cols[k] for k in ("chromosome", "start", "end")}))
    elif kind == 1:
        arr = GA(pd.DataFrame(cols))
    else:
        cols["log2"] = _float_col(rng, n)
        cols["log2"] = np.where(np.isnan(cols["log2"]), 0.25, cols["log2"])    # every bin needs a log2
        cols["depth"] = _float_col(rng, n)
        cols["probes"] = rng.integers(0, int(rng.choice([10**6, 10**9, 2 * 10**12])), n)      # integers beyond 6 significant digits must come back digit for digit
        cols["weight"] = _float_col(rng, n)
        arr = CNA(pd.DataFrame(cols), {"sample_id": "S1"})
    if i % 5:
        arr.sort()          # arrays are normally kept sorted; every 5th case stays in shuffled order
    run.begin_case("roundtrip", i, cls=f"roundtrip:kind{kind}" + ("" if i % 5 else ":unsorted"))
    fmts = ["tab", "bed", "bed3", "bed4", "interval", "text"]
    for fmt in fmts:
        p1 = os.path.join(d, f"a.{fmt}")
        p2 = os.path.join(d, f"b.{fmt}")
        w = _safe(T.write, arr, p1, fmt)
        if isinstance(w, Exception):
            run.violate("tabio.write", f"write-{fmt}-raises-{type(w).__name__}", f"{w!r}", {"rows": rows[:10], "kind": kind})
            continue
        rfmt = {"bed": "bed"}.get(fmt, fmt)
        into = CNA if (fmt == "tab" and kind == 2) else None
        back = _safe(T.read, p1, rfmt, into) if into else _safe(T.read, p1, rfmt)
        if isinstance(back, Exception):
            run.violate("tabio.read[roundtrip]", f"roundtrip-{fmt}-read-raises-{type(back).__name__}", f"{back!r}", {"rows": rows[:10], "kind": kind})
            continue
        _safe(T.write, back, p2, fmt)
        # files written by the library itself must be auto-detected as what they are (names of letters, digits, underscores)
        if i % 4 and (fmt in ("bed3", "text") or kind >= 1) and fmt != "bed":
            TM.register_truth(p1, rows, fmt, gene=fmt in ("tab", "bed4", "interval"))
            r = _safe(T.read_auto, p1)
            if isinstance(r, Exception):
                run.violate("tabio.read[truth]", f"auto-written-{fmt}-raises-{type(r).__name__}", f"auto-detecting a file written with fmt={fmt} raised {r!r}", {"rows": rows[:20]})
    shutil.rmtree(d, ignore_errors=True)
    run.end_case(fp=rt.fingerprint(cols, 12), nontrivial=n >= 2, sample={"columns": list(cols), "rows": rows[:3]} if i % 79 == 0 else None)


# ------------------------------------------------------------------------ SEG

def _n_seg(tier):
    return 60 if tier == "quick" else 800


def case_seg(run, i):
    import skgenome.tabio as T
    from cnvlib.cnary import CopyNumArray as CNA
    from cnvlib import export, commands, cmdutil
    rng = run.rng("seg", i)
    d = os.path.join(run.workdir, f"s{run.shard}_{i}")
    os.makedirs(os.path.join(d, "out"), exist_ok=True)
    nsamp = int(rng.integers(1, 5))
    pre = "chr" if rng.random() < 0.5 else ""
    names = [pre + x for x in ("1", "2", "10", "X", "Y")][: int(rng.integers(1, 6))]
    run.begin_case("seg", i, cls=f"seg:{nsamp}samples")
    truth, fnames = {}, []
    for k in range(nsamp):
        sid = f"Smp{k}_{i}"
        rows = []
        for c in names:
            pos = int(rng.choice([0, 1, 1000]))
            for _ in range(int(rng.integers(1, 6))):
                ln = int(rng.integers(1, 10**7))
                rows.append((c, pos, pos + ln, int(rng.integers(1, 5000)), float(rng.normal(0, 1))))
                pos += ln + int(rng.choice([0, 1, 500]))
        arr = CNA(pd.DataFrame({"chromosome": [r[0] for r in rows], "start": [r[1] for r in rows], "end": [r[2] for r in rows], "gene": "-",
                                "log2": [r[4] for r in rows], "probes": [r[3] for r in rows]}), {"sample_id": sid})
        fn = os.path.join(d, sid + ".cns")
        T.write(arr, fn)
        fnames.append(fn)
        truth[sid] = rows
    segfile = os.path.join(d, "all.seg")
    ok = True
    try:
        table = export.export_seg(fnames, chrom_ids=False)
        cmdutil.write_dataframe(segfile, table)
    except Exception as exc:
        run.violate("seg.roundtrip", f"export-seg-raises-{type(exc).__name__}", f"{exc!r}", {"samples": nsamp})
        ok = False
    if ok:
        try:
            args = commands.parse_args(["import-seg", segfile, "-d", os.path.join(d, "out")])
            args.func(args)
        except Exception as exc:
            run.violate("seg.roundtrip", f"import-seg-raises-{type(exc).__name__}", f"{exc!r}", {"samples": nsamp})
            ok = False
    if ok:
        for sid, rows in truth.items():
            back = _safe(T.read, os.path.join(d, "out", sid + ".cns"), "tab", CNA)
            if isinstance(back, Exception):
                run.violate("seg.roundtrip", "seg-sample-missing", f"no readable .cns for sample {sid}: {back!r}", {"samples": list(truth)})
                break
            got = list(zip(back.chromosome, back.start, back.end, back["probes"], back["log2"]))
            bad = len(got) != len(rows)
            for g, w in zip(got, rows):
                if (g[0], int(g[1]), int(g[2]), int(g[3])) != (w[0], w[1], w[2], w[3]) or not F.sig6(float(g[4]), w[4]):
                    bad = True
                    mech = "seg-roundtrip-coordinates" if (g[0], int(g[1]), int(g[2])) != w[:3] else "seg-roundtrip-values"
                    run.violate("seg.roundtrip", mech, f"sample {sid}: wrote {w}, export seg -> import-seg gives {g}", {"sample": sid, "rows": rows[:10]})
                    break
            if bad and len(got) != len(rows):
                run.violate("seg.roundtrip", "seg-roundtrip-row-count", f"sample {sid}: {len(rows)} segments, {len(got)} after the round trip", {"sample": sid})
            if not bad:
                run.held("seg.roundtrip", f"seg:{'chr' if pre else 'plain'}")
        # second pass writes identical bytes
        try:
            table2 = export.export_seg([os.path.join(d, "out", sid + ".cns") for sid in truth], chrom_ids=False)
            seg2 = os.path.join(d, "again.seg")
            cmdutil.write_dataframe(seg2, table2)
            if open(segfile, "rb").read() != open(seg2, "rb").read():
                run.violate("seg.roundtrip", "seg-rewrite-differs", "export seg of the imported samples differs from the first SEG file", {"first": open(segfile).read()[:600], "second": open(seg2).read()[:600]})
            else:
                run.held("seg.rewrite")
        except Exception:
            pass
    shutil.rmtree(d, ignore_errors=True)
    run.end_case(fp=rt.fingerprint(truth, 12), nontrivial=True, sample={"samples": {k: v[:2] for k, v in truth.items()}} if i % 29 == 0 else None)


WORKLOADS = {"formats": (_n_formats, case_formats), "roundtrip": (_n_round, case_round), "seg": (_n_seg, case_seg)}
_Q = {"tabio.read[sorted]|held": 2000, "tabio.read[truth]|held": 1500, "tabio.read[roundtrip]|held": 600, "tabio.write[rewrite]|held": 600,
      "seg.roundtrip|held": 60, "extra:sniffed:bed": 100, "extra:sniffed:interval": 40, "extra:sniffed:text": 40, "extra:sniffed:gff": 40,
      "extra:sniffed:tab": 40, "extra:sniffed:vcf": 40}
QUOTAS = {"quick": _Q, "thorough": _Q}
