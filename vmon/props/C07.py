"""C07 — range queries return exactly the overlapping / contained / clipped rows.
Monitors on the six GenomicArray query methods compare every observed call
with a brute-force filter over plain tuples; path recorders on
_irange_simple/_irange_nested show which slicing routine served the calls.
"""
import numpy as np

from .. import runtime as rt
from ..gen import make_ga, multisets, small_intervals, random_intervals
from ..monitors import ga_query

TITLE = "Range queries return exactly the overlapping / contained / clipped rows"
RULE = ("small_scope: every pair (rows, queries) of multisets of positive-length intervals (quick <=2 x <=2 over 0..4, "
        "thorough <=2 x <=3 over 0..6) on one chromosome, plus sampled variants with a second chromosome on either/both sides; "
        "per pair: by_ranges x 3 modes, intersection x 3 modes, iter_ranges_of, into_ranges (string/float/function), in_range with "
        "both/one/no bound, in_ranges; random: sorted tables <=60 rows (nested, duplicated, abutting, fast path, empty, "
        "non-default index) x <=25 queries. Distinct by input fingerprint; non-trivial when both sides are non-empty.")
ASSUMPTIONS = [
    "rows sorted by (start, end) within contiguous chromosomes, positive-length rows and queries; other calls counted out-of-domain",
    "into_ranges is judged for string and float columns and supplied functions (integer columns without a function are outside the statement)",
    "iter_ranges_of(mode='trim') is out of domain (clipping has no meaning for a column of values)",
]
BUDGET_S = {"quick": 900, "thorough": 7200}
VARIANTS = ["none", "rows", "queries", "both"]
_SCOPE = {}


def _scope(tier):
    if tier not in _SCOPE:
        iv = small_intervals(4 if tier == "quick" else 6)
        _SCOPE[tier] = (multisets(iv, 2), multisets(iv, 2 if tier == "quick" else 3))
    return _SCOPE[tier]


def setup(run):
    return ga_query.attach_all(run, rt)


def _safe(fn, *a, **k):
    try:
        r = fn(*a, **k)
        if hasattr(r, "__next__"):
            r = list(r)
        return r
    except Exception:
        return None


EX = ("gene", "score")


def _deco(rows, tag, rng=None):
    if rng is None or rng.random() < 0.4:
        return [r + (f"{tag}{i % 3}", float(i) + 0.5) for i, r in enumerate(rows)]
    # values as real tables have them: neighbouring rows share a value, some are missing
    levels = [0.5, 0.5, 1.5, 2.5, float("nan")] if rng.random() < 0.5 else [0.5, 1.5, 2.5]
    return [r + (f"{tag}{i % 3}", float(rng.choice(levels))) for i, r in enumerate(rows)]


def _drive(run, a, q, rng, light=False):
    modes = ("outer", "inner", "trim")
    keep = bool(rng.integers(0, 2))
    for m in modes:
        _safe(a.by_ranges, q, mode=m, keep_empty=keep)
        _safe(a.intersection, q, mode=m)
    _safe(a.iter_ranges_of, q, "score", mode=("outer", "inner")[int(rng.integers(0, 2))], keep_empty=not keep)
    k = int(rng.integers(0, 3))
    if k == 0:
        _safe(a.into_ranges, q, "gene", "none")
    elif k == 1:
        _safe(a.into_ranges, q, "score", np.nan)
    if "score" in a.data.columns and rng.random() < 0.3:
        # the same numbers in single precision: still "floating-point numbers", still the median
        a32 = a.add_columns(score32=a.data["score"].astype(np.float32))
        _safe(a32.into_ranges, q, "score32", np.nan)
        run.extra["into_ranges:float32-column"] += 1
    if k == 2:
        _safe(a.into_ranges, q, "score", -1.0, [max, len, sum, np.nanmean][int(rng.integers(0, 4))])     # functions that see every overlapping row's value: multiplicity and missing values matter
        _safe(a.into_ranges, q, "score", -1.0)
    # single-range queries, with open bounds
    chroms = sorted(set(a.chromosome)) or ["chr1"]
    for qr in list(q)[: 1 if light else 3]:
        chrom = qr.chromosome
        single = len(chroms) == 1 and chroms[0] == chrom
        for m in modes:
            opt = int(rng.integers(0, 4))
            s = None if opt in (1, 3) else int(qr.start)
            e = None if opt in (2, 3) else int(qr.end)
            _safe(a.in_range, None if (single and rng.random() < 0.3) else chrom, s, e, mode=m)
    if len(q):
        chrom = q.chromosome.iat[0]
        sub = q.data[q.data.chromosome == chrom]
        opt = int(rng.integers(0, 3))
        _safe(a.in_ranges, chrom, None if opt == 1 else sub.start.values, None if opt == 2 else sub.end.values,
              mode=modes[int(rng.integers(0, 3))])


def _n_small(tier):
    A, B = _scope(tier)
    return len(A) * len(B) * len(VARIANTS)


def case_small(run, i):
    A, B = _scope(run.tier)
    v, j = i % len(VARIANTS), i // len(VARIANTS)
    ia, ib = j // len(B), j % len(B)
    rng = run.rng("small", i)
    if v != 0 and rng.random() > (0.15 if run.tier == "quick" else 0.05):
        return
    if run.tier == "thorough" and v == 0 and rng.random() > 0.5:
        return
    a_rows = [("chr1", s, e) for s, e in A[ia]]
    q_rows = [("chr1", s, e) for s, e in B[ib]]
    var = VARIANTS[v]
    if var in ("rows", "both"):
        a_rows.append(("chr2", 1, 3))
    if var in ("queries", "both"):
        q_rows.append(("chr2", 2, 4) if var == "both" else ("chr2", 1, 3))
    run.begin_case("small_scope", i, cls=f"small:{var}")
    a, q = make_ga(_deco(a_rows, "g"), EX), make_ga(_deco(q_rows, "q"), EX)
    _drive(run, a, q, rng, light=True)
    run.end_case(fp=f"s{i}", nontrivial=bool(a_rows and q_rows), sample={"rows": a_rows, "queries": q_rows} if i % 1499 == 0 else None)


def _n_random(tier):
    return 600 if tier == "quick" else 20000


def case_random(run, i):
    rng = run.rng("random", i)
    allc = ["chr2", "chr10", "chrX"][: int(rng.integers(1, 4))]
    ca = [c for c in allc if rng.random() < 0.85] or allc[:1]
    cq = [c for c in allc if rng.random() < 0.85] or allc[:1]
    maxc = int(rng.choice([40, 2000, 10**6]))
    a_rows = _deco(random_intervals(rng, int(rng.integers(0, 61)), maxc, ca), "g", rng)
    q_rows = _deco(random_intervals(rng, int(rng.integers(0, 26)), maxc, cq), "q")
    if rng.random() < 0.15:
        # queries at coordinate 0 and exactly touching a row's end/start
        for r in a_rows[:3]:
            q_rows.append((r[0], r[2], r[2] + 5, "qt", 0.5))
            if r[1] > 0:
                q_rows.append((r[0], 0, r[1], "qz", 0.5))
        q_rows.sort(key=lambda r: (allc.index(r[0]), r[1], r[2]))
    run.begin_case("random", i, cls="random")
    a, q = make_ga(a_rows, EX), make_ga(q_rows, EX)
    if len(a) > 2 and rng.random() < 0.3:
        # non-default (but unique) row labels, as after filtering
        keep = np.ones(len(a), bool)
        keep[int(rng.integers(0, len(a)))] = False
        a = a[keep]
    _drive(run, a, q, rng)
    run.end_case(fp=rt.fingerprint([a_rows, q_rows], 12), nontrivial=bool(a_rows and q_rows),
                 sample={"rows": a_rows[:6], "queries": q_rows[:4]} if i % 299 == 0 else None)


WORKLOADS = {"small_scope": (_n_small, case_small), "random": (_n_random, case_random)}
_Q = {
    "GenomicArray.by_ranges|held": 3000, "GenomicArray.in_range|held": 1500, "GenomicArray.in_ranges|held": 500,
    "GenomicArray.intersection[rows]|held": 3000, "GenomicArray.iter_ranges_of|held": 1000,
    "GenomicArray.into_ranges|held": 1000, "extra:path:_irange_simple": 1000, "extra:path:_irange_nested": 1000,
}
QUOTAS = {"quick": _Q, "thorough": _Q}


# the two internal slicing routines are only counted to show that both paths were exercised; if a refactoring removed them the
# public-API monitors still decide the property
QUOTA_WAIVERS = {
    "monitor-unavailable:path._irange_simple": {"waive": ["extra:path:_irange_simple"], "require": {"GenomicArray.into_ranges|held": 1000}},
    "monitor-unavailable:path._irange_nested": {"waive": ["extra:path:_irange_nested"], "require": {"GenomicArray.into_ranges|held": 1000}},
}
