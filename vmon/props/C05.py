"""C05 — the pooled reference is the robust per-bin consensus in the chosen
reference sex.  Cohorts of synthetic .cnn files are written to the work
directory and pooled by the real do_reference; see monitors/refmon.py."""
import os
import shutil

import numpy as np

from .. import runtime as rt
from ..monitors import refmon, robust as robust_mon

TITLE = "The pooled reference is the robust per-bin consensus in the chosen reference sex"
RULE = ("cohorts of 1..8 synthetic samples (*.targetcoverage.cnn, optional/empty *.antitargetcoverage.cnn) over 60..400 bins on 1..4 autosomes + X + Y "
        "(or no sex chromosomes), any sex mix, per-sample depth scale 2^-3..2^5, chr/plain naming, male/female reference, sexes given or inferred; kinds: "
        "'random' (random profile + noise, corrections off: exact matrix/estimator oracle), 'depth-only' (noise 0), 'sex-mix' (noise sd 0.02..0.15, "
        "corrections off or on with <= 10% sex-chromosome bins), 'mismatch' (one file with a different bin) ; FASTA texts with upper/lower case, N runs, "
        "line widths 7..80 for gc/rmask and flat references. Distinct by cohort fingerprint; non-trivial when >= 2 bins.")
ASSUMPTIONS = [
    "exact clause: the matrix rows are recomputed from the files by the monitor's own csv reader with the sexes the code actually used (given or inferred), so a wrong inference is reported by the semantic monitor, not as a numeric mismatch",
    "bins whose values have c*MAD below the documented floor (e.g. all samples identical) are ill-conditioned for the published biweight formula and are skipped by the exact clause (counted); the depth-only clause covers them semantically (|log2 - profile| <= 2e-3, spread <= 2e-3)",
    "sex-mix clauses compare the mean over chrX / chrY bins with the autosomal mean; tolerance 0.05 + 3*sd/sqrt(bins) (+0.1 with corrections on)",
    "rmask is accepted as lowercase/unambiguous, lowercase/length or lowercase-ACGT/length when a bin contains N (the statement does not choose)",
    "clustered references and PAR genomes are not driven; samples always allow sex inference when sexes are inferred (>= 20 chrX bins)",
]
BUDGET_S = {"quick": 600, "thorough": 2400}


def setup(run):
    t = refmon.attach_all(run, rt)
    return t


def _write_cnn(path, cols):
    keys = ["chromosome", "start", "end", "gene", "depth", "log2"]
    with open(path, "w") as fh:
        fh.write("\t".join(keys) + "\n")
        for row in zip(*(cols[k] for k in keys)):
            fh.write("\t".join(repr(float(v)) if isinstance(v, (float, np.floating)) else str(v) for v in row) + "\n")


def gen_bins(rng, kind, with_fasta, inferred=False, panel_without_sex=False):
    """panel_without_sex: an autosome-only gene panel -- no target bin on X or Y, which only the antitargets cover."""
    prefix = "chr" if rng.random() < 0.6 else ""
    nauto = int(rng.integers(1, 5))
    names = [str(k) for k in sorted(rng.choice([1, 2, 3, 5, 11, 17], nauto, replace=False).tolist())]
    sexchrom = rng.random() < 0.85 or kind == "sex-mix"
    per = {}
    for nm in names:
        per[nm] = int(rng.integers(25, 90))
    if sexchrom:
        # inferred sexes: stay inside the envelope in which inference is claimed (>= 40 chrX bins in every file that has any)
        min_x = 45 if inferred else 20
        if kind == "sex-mix":
            # corrections may be on: keep the sex-chromosome share <= 10%
            per["X"] = int(rng.integers(min_x, min_x + 15))
            per["Y"] = int(rng.integers(6, 14))
            while sum(per[nm] for nm in names) < 10 * (per["X"] + per["Y"]):
                for nm in names:
                    per[nm] += 30
        else:
            per["X"] = int(rng.integers(min_x, min_x + 40))
            if rng.random() < 0.8:
                per["Y"] = int(rng.integers(5, 20))
    tb = {k: [] for k in ("chromosome", "start", "end", "gene")}
    ab = {k: [] for k in ("chromosome", "start", "end", "gene")}
    lengths = {}
    for nm, n in per.items():
        pos = int(rng.integers(100, 2000))
        for i in range(n):
            pos += int(rng.integers(0, 400))
            ln = int(rng.integers(60, 500))
            off_panel = panel_without_sex and nm in ("X", "Y")
            if not off_panel:
                tb["chromosome"].append(prefix + nm)
                tb["start"].append(pos)
                tb["end"].append(pos + ln)
                tb["gene"].append(f"G{nm}_{i // 5}")
            pos += ln
            # inferred sexes need >= 40 chrX bins in the antitarget file too; with corrections possibly on (sex-mix)
            # every chromosome gets the same antitarget density so that the sex-chromosome share stays <= 10% in both blocks
            if rng.random() < (1.0 if off_panel or (inferred and (nm == "X" or kind == "sex-mix")) else 0.3):
                pos += int(rng.integers(0, 100))
                ln = int(rng.integers(800, 4000))
                ab["chromosome"].append(prefix + nm)
                ab["start"].append(pos)
                ab["end"].append(pos + ln)
                ab["gene"].append("Antitarget")
                pos += ln
        lengths[prefix + nm] = pos + 500
    return tb, ab, lengths


def gen_fasta(rng, path, lengths):
    width = int(rng.choice([7, 50, 60, 80]))
    with open(path, "w") as fh:
        for name, ln in lengths.items():
            seq = rng.choice(list("ACGT"), ln, p=[0.3, 0.2, 0.2, 0.3])
            # lower-case (repeat-masked) stretches and N runs
            # the same density of masked stretches on every contig, so that the covariate is not a proxy for the chromosome
            for _ in range(max(2, ln // 2500)):
                a = int(rng.integers(0, ln))
                b = min(ln, a + int(rng.integers(10, 1500)))
                seq[a:b] = np.char.lower(seq[a:b])
            for _ in range(int(rng.integers(0, 3)) + ln // 40000):
                a = int(rng.integers(0, ln))
                b = min(ln, a + int(rng.integers(1, 700)))
                seq[a:b] = "N" if rng.random() < 0.7 else "n"
            # IUPAC ambiguity codes (as in GRCh38), either case: ambiguous bases like N
            if rng.random() < 0.6:
                k = int(rng.integers(1, max(2, ln // 300)))
                at = rng.integers(0, ln, k)
                seq[at] = rng.choice(list("RYSWKMBDHVryswkmbdhv"), k)
            s = "".join(seq.tolist())
            fh.write(f">{name} synthetic\n")
            for i in range(0, ln, width):
                fh.write(s[i:i + width] + "\n")


def _levels(chroms, is_xx):
    out = np.zeros(len(chroms))
    for i, c in enumerate(chroms):
        k = refmon.chrom_class(c)
        if k == "X":
            out[i] = 0.0 if is_xx else -1.0
        elif k == "Y":
            out[i] = -7.0 if is_xx else -1.0
    return out


def _n(tier):
    return 96 if tier == "quick" else 1000


KINDS = ["random", "random", "depth-only", "sex-mix", "sex-mix", "mismatch", "random", "sex-mix"]


def case_cohort(run, i):
    import cnvlib.reference as R
    rng = run.rng("cohort", i)
    kind = KINDS[i % len(KINDS)]
    corrected = kind == "sex-mix" and (i // len(KINDS)) % 2 == 1
    with_fasta = corrected and rng.random() < 0.5
    want_given = rng.random() < 0.35
    cli_case = i % 5 == 2
    if cli_case and (i // 5) % 2 == 0:
        want_given = True          # the sub-command's -x spellings are exercised on given-sex cohorts of both sexes
    panel_without_sex = (i % 7 == 3) and kind != "mismatch"
    tb, ab, lengths = gen_bins(rng, kind, with_fasta, inferred=not want_given, panel_without_sex=panel_without_sex)
    nsamp = int(rng.integers(1, 9))
    if kind in ("depth-only", "sex-mix"):
        nsamp = max(2, nsamp)
    male_ref = bool(rng.integers(0, 2))
    anti_mode = ["files", "files", "empty", "none"][int(rng.integers(0, 4))]
    if panel_without_sex:
        anti_mode = "files"
        run.extra["cohorts:autosome-only-panel-with-sex-chromosomes-in-antitargets"] += 1
    has_sex = any(refmon.chrom_class(c) in ("X", "Y") for c in tb["chromosome"] + (ab["chromosome"] if anti_mode == "files" else []))
    given = (not has_sex) or want_given
    if given:
        sex_all = bool(rng.integers(0, 2))
        if cli_case and (i // 5) % 2 == 0:
            sex_all = bool((i // 10) % 2)
        is_xx = [sex_all] * nsamp
    else:
        is_xx = [bool(x) for x in rng.integers(0, 2, nsamp)]
    nt, na = len(tb["start"]), len(ab["start"])
    prof_t = np.round(rng.normal(0, 0.3, nt), 5) if kind in ("random", "depth-only", "mismatch") else np.zeros(nt)
    prof_a = np.round(rng.normal(0, 0.3, na), 5) if kind in ("random", "depth-only", "mismatch") else np.zeros(na)
    sd = 0.0 if kind == "depth-only" else float(rng.uniform(0.02, 0.15))
    d = os.path.join(run.workdir, f"cohort{run.shard}_{i}")
    os.makedirs(d, exist_ok=True)
    tfiles, afiles, truth_xx = [], [], {}
    for k in range(nsamp):
        sid = f"S{k:02d}x{int(rng.integers(0, 1000))}"
        truth_xx[sid] = is_xx[k]
        scale = float(np.round(rng.uniform(-3, 5), 3))
        for (bins, prof, suffix, files) in ((tb, prof_t, ".targetcoverage.cnn", tfiles), (ab, prof_a, ".antitargetcoverage.cnn", afiles)):
            if suffix.startswith(".anti") and anti_mode == "none":
                continue
            n = len(bins["start"])
            lg = prof + _levels(bins["chromosome"], is_xx[k]) + scale + rng.normal(0, sd, n) if n else np.zeros(0)
            if kind == "random" and n:
                # uncovered bins only on autosomes: a null chrX/chrY bin is not "at the level expected for the sample's sex" (premise of sex inference)
                nul = (rng.random(n) < 0.02) & np.array([refmon.chrom_class(c) == "auto" for c in bins["chromosome"]])
                lg = np.where(nul, -20.0, lg)
            lg = np.round(lg, 6)
            dp = np.where(lg <= -19.9, 0.0, np.round(np.exp2(lg), 6))
            cols = dict(bins, log2=lg.tolist(), depth=dp.tolist())
            if suffix.startswith(".anti") and anti_mode == "empty":
                cols = {k2: [] for k2 in ("chromosome", "start", "end", "gene", "depth", "log2")}
            if kind == "mismatch" and k == nsamp - 1 and nsamp > 1 and suffix.startswith(".target"):
                cols = {k2: list(v) for k2, v in cols.items()}
                j = int(rng.integers(0, n))
                if rng.random() < 0.5:
                    cols["end"][j] += 1
                else:
                    cols["gene"][j] = cols["gene"][j] + "_alt"
            p = os.path.join(d, sid + suffix)
            _write_cnn(p, cols)
            files.append(p)
    if kind == "mismatch" and nsamp == 1:
        kind = "random"
    order = rng.permutation(len(tfiles))
    tfiles = [tfiles[j] for j in order]
    if afiles:
        afiles = [afiles[j] for j in rng.permutation(len(afiles))]
    fa = None
    if with_fasta:
        fa = os.path.join(d, "genome.fa")
        gen_fasta(rng, fa, lengths)
    # ground truth for the semantic clauses
    cohort = {"kind": kind, "is_xx": truth_xx, "inferred": not given, "sd": sd, "n": nsamp}
    if kind == "depth-only":
        prof = {}
        for bins, pr in ((tb, prof_t), (ab, prof_a if anti_mode == "files" else np.zeros(0))):
            for j in range(len(pr)):
                c = bins["chromosome"][j]
                kcls = refmon.chrom_class(c)
                # centred common profile: autosomes keep their profile minus the median of chromosome medians (computed by the monitor's centre model below)
                prof[(c, bins["start"][j], bins["end"][j])] = (float(pr[j]), kcls)
        cohort["_raw_profile"] = prof
    if kind == "sex-mix":
        nx = sum(1 for c in tb["chromosome"] if refmon.chrom_class(c) == "X")
        ny = sum(1 for c in tb["chromosome"] if refmon.chrom_class(c) == "Y")
        cohort["tol"] = 0.05 + 2 * sd / np.sqrt(max(1, min(nx, ny or nx))) + (0.1 if corrected else 0.0)
    opts = dict(do_gc=corrected, do_edge=corrected, do_rmask=corrected)
    if kind == "depth-only":
        # expected reference value per bin: profile centred like a sample, at the reference-sex level
        prof = {}
        for bins, pr, skip in ((tb, prof_t, True), (ab, prof_a, False)):
            if not len(pr) or (bins is ab and anti_mode != "files"):
                continue
            t = {"n": len(pr), "chromosome": bins["chromosome"], "log2": pr.tolist()}
            ctr = refmon.model_centre(t, False) or 0.0
            for j in range(len(pr)):
                c = bins["chromosome"][j]
                kc = refmon.chrom_class(c)
                v = float(pr[j]) - ctr
                if kc == "X":
                    v = v + (-1.0 if male_ref else 0.0)
                elif kc == "Y":
                    v = -1.0 if all(is_xx) else (v - 1.0 if not any(is_xx) else None)
                prof[(c, bins["start"][j], bins["end"][j])] = v
        cohort.pop("_raw_profile", None)
        if any(v is None for v in prof.values()):
            # mixed sexes: chrY rows are -1 exactly for females and profile-1 for males; not a 'depth-only' situation on Y
            prof = {k: (v if v is not None else float("nan")) for k, v in prof.items()}
        cohort["profile"] = prof
    run.begin_case("cohort", i, cls=f"cohort:{kind}" + (":corrected" if corrected else "") + (":given" if given else ":inferred") + f":anti-{anti_mode}",
                   cohort=cohort, options=opts, male_ref=male_ref)
    if i % 5 == 2 and kind != "mismatch":
        # through the sub-command: file lists, -y, -x, -f and the --no-* switches must reach do_reference, and the file written is its result
        from ..monitors import cli_plumb
        out = os.path.join(d, "ref.cnn")
        # every other time the cohort is named by its directory (the sub-command then collects *targetcoverage.cnn itself)
        by_dir = (i // 5) % 2 == 1 and anti_mode != "none"
        argv = ["reference"] + ([d] if by_dir else tfiles + afiles) + ["-o", out] + (["-y"] if male_ref else []) + (["-x", cli_plumb.sex_arg(sex_all, i // 20)] if given else []) \
            + (["-f", fa] if fa else []) + ([] if opts["do_gc"] else ["--no-gc"]) + ([] if opts["do_edge"] else ["--no-edge"]) + ([] if opts["do_rmask"] else ["--no-rmask"])
        r = cli_plumb.check_cli(run, rt, R, "do_reference", argv,
                                dict(fa_fname=fa, is_haploid_x_reference=male_ref, female_samples=(sex_all if given else None), do_gc=opts["do_gc"], do_edge=opts["do_edge"],
                                     do_rmask=opts["do_rmask"], do_cluster=False, diploid_parx_genome=None), "reference")
        if r is not None:
            got, res, wit = r
            if sorted(got["target_fnames"]) != sorted(tfiles) or sorted(got["antitarget_fnames"] or []) != sorted(afiles):
                run.violate("cli.reference[plumbing]", "reference-cli-passes-wrong-files", "the target/antitarget file lists reaching do_reference are not the command line's", wit)
            elif not isinstance(res, Exception):
                fcols = [c for c in res.data.columns if c in ("log2", "depth", "gc", "rmask", "spread")]
                msg = cli_plumb.file_matches_table(cli_plumb.read_tsv(out), res.data, float_cols=fcols, opt_int=()) if os.path.exists(out) else "no output file"
                if msg:
                    run.violate("cli.reference[plumbing]", "reference-cli-file-differs-from-result", msg, wit)
                else:
                    cli_plumb.held(run, "reference", "cli-reference")
    else:
        try:
            R.do_reference(tfiles, afiles or None, fa, male_ref, None, (sex_all if given else None), opts["do_gc"], opts["do_edge"], opts["do_rmask"])
        except Exception:
            pass
    shutil.rmtree(d, ignore_errors=True)
    run.end_case(fp=rt.fingerprint([tb["start"][:40], prof_t[:40].tolist(), is_xx, male_ref, kind, nsamp], 12), nontrivial=nt >= 2,
                 sample={"kind": kind, "samples": nsamp, "is_xx": is_xx, "male_ref": male_ref, "bins": nt, "antitargets": anti_mode} if i % 37 == 0 else None)


# ---- flat references and FASTA statistics

def _n_flat(tier):
    return 32 if tier == "quick" else 300


def case_flat(run, i):
    import cnvlib.reference as R
    rng = run.rng("flat", i)
    tb, ab, lengths = gen_bins(rng, "random", True)
    nested = (i // 2) % 3 == 1
    if nested:
        # a whole-gene interval laid over its baits: it starts with the chromosome's first bait and reaches past the last one,
        # so the chromosome's last row (by start) is a short bait that ends before the longest bin does
        rows = list(zip(tb["chromosome"], tb["start"], tb["end"], tb["gene"]))
        for c in list(dict.fromkeys(tb["chromosome"])):
            mine = [r for r in rows if r[0] == c]
            if len(mine) >= 3 and rng.random() < 0.7:
                rows.append((c, mine[0][1], min(mine[-1][2] + int(rng.integers(20, 300)), lengths[c] - 1), "GENE_" + c))
        order = {c: k for k, c in enumerate(dict.fromkeys(tb["chromosome"]))}
        rows.sort(key=lambda r: (order[r[0]], r[1], r[2]))
        tb = {k: [r[j] for r in rows] for j, k in enumerate(("chromosome", "start", "end", "gene"))}
    d = os.path.join(run.workdir, f"flat{run.shard}_{i}")
    os.makedirs(d, exist_ok=True)
    tbed, abed, fa = os.path.join(d, "t.bed"), os.path.join(d, "a.bed"), os.path.join(d, "g.fa")
    for p, b in ((tbed, tb), (abed, ab)):
        with open(p, "w") as fh:
            for c, s, e, g in zip(b["chromosome"], b["start"], b["end"], b["gene"]):
                fh.write(f"{c}\t{s}\t{e}\t{g}\n")
    use_fa = i % 2 == 0
    if use_fa:
        gen_fasta(rng, fa, lengths)
    male = bool((i // 2) % 2)
    run.begin_case("flat", i, cls="flat:" + ("fasta" if use_fa else "nofasta") + (":nested-bins" if nested else ""))
    try:
        R.do_reference_flat(tbed, abed if len(ab["start"]) and i % 3 else None, fa if use_fa else None, male)
    except Exception as exc:
        run.extra[f"flat-raised:{type(exc).__name__}"] += 1
    shutil.rmtree(d, ignore_errors=True)
    run.end_case(fp=rt.fingerprint([tb["start"][:30], male, use_fa], 12), nontrivial=True)


WORKLOADS = {"cohort": (_n, case_cohort), "flat": (_n_flat, case_flat)}
_Q = {"cli.reference[plumbing]|held": 10, "reference.do_reference|held": 70, "reference.do_reference[exact]|held": 35, "reference.summarize_info|held": 60,
      "reference.do_reference[semantic]|held": 30, "class:depth-only": 8, "class:refusal:mismatching-bins": 5,
      "reference.do_reference_flat|held": 25, "reference.get_fasta_stats|held": 15, "extra:summarize_info:columns-judged": 5000}
QUOTAS = {"quick": _Q, "thorough": {k: v * 8 for k, v in _Q.items()}}

INTERNAL_MONITORS = {"reference.summarize_info": ["extra:summarize_info:columns-judged"], "reference.get_fasta_stats": []}