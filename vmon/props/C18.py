"""C18 — VCF genotypes become allele frequencies and per-segment BAF as defined.
Monitors on tabio.read(fmt='vcf'), vcfio._choose_samples, load_het_snps and the
VariantArray BAF methods compare with the record list the generator wrote
(independent VCF text writer) and with the documented selection rule.
"""
import os

import numpy as np

from .. import runtime as rt
from ..gen import make_cna
from ..monitors import variants, calling
from ..synth.vcf import make_vcf

TITLE = "VCF genotypes become allele frequencies and per-segment BAF as defined"
RULE = ("synthetic VCF 4.2 files: 1..3 samples, with/without PEDIGREE (1-2 declared pairs), GT phased/unphased, per-record FORMAT with AD and/or DP present "
        "or absent, INFO DP present or absent, SNVs and indels, SOMATIC and FILTER values, 0..500 records on 1..3 contigs in shuffled order; read with "
        "selectors by name/index/none x min_depth x skip_somatic; load_het_snps x zygosity_freq; segment tables over them (incl. empty segments) "
        "through baf_by_ranges, mirrored_baf, tumor_boost and do_call(variants=...). Distinct by file fingerprint; non-trivial with >= 2 records.")
ASSUMPTIONS = [
    "multi-allelic records and records with a missing genotype are not generated (outside the claim / zygosity unspecified)",
    "the depth filter applies to the paired normal's depth when a pair is selected (the reader's convention; the statement only says 'the depth filter asked for')",
    "files without any germline-heterozygous record are out of domain for load_het_snps (heterozygous() documents that it then returns everything), as is the all-0/0-normal work-around",
    "for one SNV in a range either side of 0.5 is accepted; for a median exactly at 0.5 either direction; otherwise the majority side (docstring)",
]
BUDGET_S = {"quick": 600, "thorough": 2400}


def setup(run):
    t = variants.attach_all(run, rt)
    t += calling.attach_all(run, rt)
    return t


def _n(tier):
    return 240 if tier == "quick" else 3200


def case_vcf(run, i):
    import skgenome.tabio as T
    import cnvlib.cmdutil as U
    import cnvlib.call as C
    rng = run.rng("vcf", i)
    path = os.path.join(run.workdir, f"v{run.shard}_{i}.vcf")
    truth = make_vcf(rng, path)
    variants.register_vcf(path, truth)
    samples = truth["samples"]
    run.begin_case("vcf", i, cls=f"vcf:{len(samples)}samples:{'ped' if truth['pedigree'] else 'noped'}")

    def sel():
        k = int(rng.integers(0, 5))
        if k == 0:
            return None, None
        if k == 1:
            return str(rng.choice(samples)), None
        if k == 2:
            return int(rng.integers(0, len(samples))), None
        a = int(rng.integers(0, len(samples)))
        others = [s for j, s in enumerate(samples) if j != a]
        if not others:
            return samples[a], None
        b = str(rng.choice(others))
        return (samples[a] if k == 3 else None), b
    arrays = []
    for _ in range(3):
        sid, nid = sel()
        kw = {}
        if sid is not None:
            kw["sample_id"] = sid
        if nid is not None:
            kw["normal_id"] = nid
        md = [None, 20, int(rng.integers(1, 250))][int(rng.integers(0, 3))]
        if md:
            kw["min_depth"] = md
        if rng.random() < 0.5:
            kw["skip_somatic"] = True
        try:
            arrays.append(T.read(path, "vcf", **kw))
        except Exception:
            pass
        try:
            zf = [None, None, 0.25, 0.1][int(rng.integers(0, 4))]
            arrays.append(U.load_het_snps(path, sid, nid, [20, 1, 50][int(rng.integers(0, 3))], zf))
        except Exception:
            pass
    # segment tables over the contigs, with empty segments
    cols = {k: [] for k in ("chromosome", "start", "end", "gene", "log2", "probes", "weight")}
    for c in sorted(truth["contigs"], key=["chr1", "chr2", "chr10", "chrX"].index):
        pos = 0
        while pos < 210_000:
            ln = int(rng.choice([50, 500, 5000, 40_000, 100_000]))
            cols["chromosome"].append(c); cols["start"].append(pos); cols["end"].append(pos + ln); cols["gene"].append("-")
            cols["log2"].append(float(rng.normal(0, 0.5))); cols["probes"].append(10); cols["weight"].append(1.0)
            pos += ln + int(rng.choice([0, 0, 1000]))
    seg = make_cna(cols, odd=(i % 3 == 1))     # every third table carries non-default row labels, as a filtered table does
    for va in arrays:
        if va is None or not len(va):
            continue
        for fn in (lambda: va.baf_by_ranges(seg), lambda: va.baf_by_ranges(seg, tumor_boost=True), lambda: va.baf_by_ranges(seg, above_half=bool(i % 2)), lambda: va.mirrored_baf(),
                   lambda: va.mirrored_baf(True), lambda: va.mirrored_baf(False, True), lambda: va.tumor_boost()):
            try:
                fn()
            except Exception:
                pass
    if arrays and arrays[-1] is not None and len(arrays[-1]):
        for purity in (None, 0.6):
            try:
                C.do_call(seg, arrays[-1], "threshold", 2, purity)
            except Exception:
                pass
        # a filter that merges segments before the BAF is attached (ci / sem), and single-chromosome pieces of the table against the whole VCF
        try:
            lg = np.asarray(seg["log2"], float)
            wide = rng.random(len(seg)) < 0.7
            seg_ci = seg.add_columns(ci_lo=np.where(wide, lg - 3.0, lg - 0.01), ci_hi=np.where(wide, lg + 3.0, lg + 0.01), sem=np.where(wide, 2.0, 0.001))
            C.do_call(seg_ci, arrays[-1], "threshold", 2, None, filters=[["ci"], ["sem"]][i % 2])
        except Exception:
            pass
        pieces = [sub for _c, sub in seg.by_chromosome()]
        for sub in pieces[:: max(1, len(pieces) - 1)]:
            try:
                arrays[-1].baf_by_ranges(sub)
                C.do_call(sub, arrays[-1], "threshold", 2, None)
            except Exception:
                pass
        if len(seg) > 1:
            try:
                arrays[-1].baf_by_ranges(seg[int(rng.integers(0, len(seg))):][:1])      # a single row
            except Exception:
                pass
    if i % 8 == 0 and truth["records"]:
        # `cnvkit.py call -v VCF [-i ID] [-n ID] [--min-variant-depth N] [-z F]`: the selectors and filters must reach load_het_snps unchanged
        import cnvlib.commands as K
        from skgenome import tabio as TIO
        from ..monitors import cli_plumb
        sid, nid = sel()
        mvd = int([20, 5, 60][i // 8 % 3])
        zf = [None, 0.25, 0.1][i // 8 % 3]
        cns, out = path + ".cns", path + ".call.cns"
        with run.monitor_scope():
            TIO.write(seg, cns)
        if i % 16 == 0:
            # same rows, chromosomes in string order (chr1, chr10, chr2, ...): reading sorts them, labels must follow
            with open(cns) as fh:
                lines = fh.read().splitlines()
            body = sorted(lines[1:], key=lambda ln: (ln.split("\t")[0], int(ln.split("\t")[1])))
            with open(cns, "w") as fh:
                fh.write("\n".join([lines[0]] + body) + "\n")
        argv = ["call", cns, "-v", path, "-o", out, "--min-variant-depth", str(mvd)] + (["-i", str(sid)] if isinstance(sid, str) else []) \
            + (["-n", str(nid)] if isinstance(nid, str) else []) + (["-z", repr(zf)] if zf else [])
        r = cli_plumb.check_cli(run, rt, K, "load_het_snps", argv,
                                dict(vcf_fname=path, sample_id=sid if isinstance(sid, str) else None, normal_id=nid if isinstance(nid, str) else None,
                                     min_variant_depth=mvd, zygosity_freq=zf), "call-vcf")
        if r is not None:
            cli_plumb.held(run, "call-vcf", "cli-call-vcf")
        for f in (cns, out):
            if os.path.exists(f):
                os.remove(f)
    os.remove(path)
    run.end_case(fp=rt.fingerprint([truth["samples"], truth["pedigree"], [(r["chrom"], r["pos"], r["gt"]) for r in truth["records"][:50]]], 12),
                 nontrivial=len(truth["records"]) >= 2, sample={"samples": samples, "pedigree": truth["pedigree"], "records": truth["records"][:2]} if i % 61 == 0 else None)


WORKLOADS = {"vcf": (_n, case_vcf)}
_Q = {"cli.call-vcf[plumbing]|held": 15, "call.do_call[baf-attached]|held": 100, "tabio.read[vcf]|held": 1000, "vcfio._choose_samples|held": 1000, "cmdutil.load_het_snps|held": 300, "VariantArray.baf_by_ranges|held": 800,
      "VariantArray.mirrored_baf|held": 800, "VariantArray.tumor_boost|held": 100, "call.do_call[allelic]|held": 200}
QUOTAS = {"quick": _Q, "thorough": _Q}

INTERNAL_MONITORS = {"vcfio._choose_samples": []}