"""C01 — clonal calls invert the purity/ploidy mixing model; cn is never negative.
The do_call monitor (vmon/monitors/calling.py) checks cn = n against the truth
the generator recorded for each row (the forward mixing equation produced the
log2; nothing here inverts it), the rewritten log2 for even ploidy, the pure
rounding rule, and integer cn >= 0 on every call.
"""
import math

import numpy as np

from .. import runtime as rt
from ..gen import make_cna
from ..models import copynumber as CN
from ..monitors import calling

TITLE = "Clonal calls invert the mixing model; cn >= 0"
RULE = ("config tables: one table per (ploidy 1..6, purity, reference sex, sample sex, naming, PAR genome) holding, for every chromosome class "
        "(autosome, X, Y, and PAR-X/PAR-Y >=100 kb inside the PAR intervals when a PAR genome is given), one row per n in 0..12 whose log2 is "
        "the forward mixture log2((p*n+(1-p)*x)/r) (log2=-25 where the mixture is 0); random tables: log2 uniform in [-30,30] incl. +-30, random "
        "purity in (0,1] and ploidy, for the integer/non-negative clause and the pure rounding rule. Distinct by configuration/table fingerprint.")
ASSUMPTIONS = [
    "classes with r = 0 (ploidy 1 on Y / male-reference X, PAR-Y) are only judged on the integer >= 0 clause (the mixing equation divides by r)",
    "rows where r*2^log2 is within 1e-6 of k+1/2 are skipped for the nearest-integer clause (float tie)",
    "PAR rows are generated >= 100 kb inside the published PAR intervals; non-PAR X/Y rows >= 5 Mb away from them",
]
BUDGET_S = {"quick": 600, "thorough": 2400}

PURITIES_Q = [1.0, 0.999, 0.9, 0.7, 0.5, 0.3, 0.1, 0.05]


def _purities(tier):
    if tier == "quick":
        return PURITIES_Q
    return sorted(set(PURITIES_Q + [round(x, 3) for x in np.linspace(0.02, 0.98, 33)] + [0.01]))


def setup(run):
    return calling.attach_all(run, rt)


def _configs(tier):
    out = []
    for ploidy in range(1, 7):
        for purity in _purities(tier):
            for male_ref in (False, True):
                for female in (False, True):
                    for chrpre in ("chr", ""):
                        for par in (None, "grch37", "grch38"):
                            if par and (purity >= 1.0):
                                continue
                            if par and tier == "quick" and (chrpre == "" or purity not in (0.9, 0.5, 0.1)):
                                continue
                            out.append((ploidy, purity, male_ref, female, chrpre, par))
    return out


_CFG = {}


def _n_cfg(tier):
    if tier not in _CFG:
        _CFG[tier] = _configs(tier)
    return len(_CFG[tier])


def _regions(chrpre, par):
    """(chrom, start, end) per class."""
    regs = [(chrpre + "1", 1_000_000, 1_050_000), (chrpre + "7", 50_000_000, 50_010_000),
            (chrpre + "X", 60_000_000, 60_050_000), (chrpre + "Y", 20_000_000, 20_050_000)]
    if par:
        px, py = CN.PAR[par]["X"], CN.PAR[par]["Y"]
        regs += [(chrpre + "X", px[0][0] + 100_000, px[0][0] + 150_000), (chrpre + "X", px[1][0] + 100_000, px[1][0] + 150_000),
                 (chrpre + "Y", py[0][0] + 100_000, py[0][0] + 150_000), (chrpre + "Y", py[1][0] + 100_000, py[1][0] + 150_000)]
        # bins flush with the PAR: a run whose first bin starts exactly at PAR1's first base, a run whose last bin (12 x 1000 + 900 bases on) ends exactly at PAR2's end
        regs += [(chrpre + "X", px[0][0], px[0][0] + 50_000), (chrpre + "Y", py[0][0], py[0][0] + 50_000),
                 (chrpre + "X", px[1][1] - 12_900, px[1][1]), (chrpre + "Y", py[1][1] - 12_900, py[1][1])]
    return regs


def _table_for(cfg, drop=None, odd=False, meta=None):
    """drop: None, "X" or "Y" -- leave that chromosome out of the table (a panel without chrX rows must still treat chrY as chrY)."""
    ploidy, purity, male_ref, female, chrpre, par = cfg
    xl, yl = chrpre + "X", chrpre + "Y"
    rows, truth = [], []
    for chrom, s, e in _regions(chrpre, par):
        if drop and chrom == chrpre + drop:
            continue
        cls = CN.region_class(chrom, s, e, par, xl, yl)
        if purity < 1.0:
            r = CN.ref_copies(cls, ploidy, male_ref)
            x = CN.expect_copies(cls, ploidy, female)
        else:
            r = CN.ref_copies_pure(chrom, ploidy, male_ref)
            x = 0
        for n in range(0, 13):
            lg = CN.mix_log2(n, purity, x, r) if r > 0 else None
            if lg is None:
                # mixture 0 (or r = 0): far below anything; only cn = 0 / cn >= 0 is asserted
                rows.append((chrom, s + n * 1000, s + n * 1000 + 900, -25.0))
                truth.append(0 if (r > 0 and purity * n + (1 - purity) * x == 0) else None)
            else:
                rows.append((chrom, s + n * 1000, s + n * 1000 + 900, lg))
                truth.append(n)
    order = sorted(range(len(rows)), key=lambda k: (["1", "7", "X", "Y"].index(rows[k][0].replace("chr", "")), rows[k][1]))
    rows, truth = [rows[k] for k in order], [truth[k] for k in order]
    cna = make_cna({"chromosome": [r[0] for r in rows], "start": [r[1] for r in rows], "end": [r[2] for r in rows],
                    "gene": ["G"] * len(rows), "log2": [r[3] for r in rows], "probes": [10] * len(rows), "weight": [1.0] * len(rows)}, odd=odd, meta=meta)
    return cna, rows, truth


def case_config(run, i):
    _n_cfg(run.tier)
    ploidy, purity, male_ref, female, chrpre, par = _CFG[run.tier][i]
    drop = [None, None, None, "X", "Y"][i % 5]
    cna, rows, truth = _table_for(_CFG[run.tier][i], drop, odd=(i % 3 == 1), meta=("none" if i % 4 == 2 else None))     # a third of the tables carry non-default row labels, as a filtered table does
    run.begin_case("config", i, cls=f"cfg:ploidy{ploidy}:{'purity' if purity < 1 else 'pure'}:{'par' if par else 'nopar'}" + (f":no{drop}" if drop else ""),
                   truth_n=truth, config=dict(ploidy=ploidy, purity=purity, male_ref=male_ref, female=female, naming=chrpre or "plain", par=par))
    import cnvlib.call as C
    try:
        C.do_call(cna, None, "clonal", ploidy, purity, male_ref, female, par)
    except Exception:
        pass
    if purity >= 1.0:
        # "without a purity": purity=None takes the same pure path
        run.case["purity_none"] = True
        try:
            C.do_call(cna, None, "clonal", ploidy, None, male_ref, female, None)
        except Exception:
            pass
    run.end_case(fp=f"cfg{i}", nontrivial=True,
                 sample={"config": [ploidy, purity, male_ref, female, chrpre, par], "rows": rows[:3], "truth": truth[:3]} if i % 211 == 0 else None)


def _n_random(tier):
    return 300 if tier == "quick" else 5000


def case_random(run, i):
    rng = run.rng("random", i)
    ploidy = int(rng.integers(1, 7))
    purity = [None, 1.0, float(rng.uniform(0.001, 1.0)), float(rng.choice([0.01, 0.05, 0.5, 0.999]))][int(rng.integers(0, 4))]
    if i % 16 == 5:
        purity = float(rng.choice([1e-4, 1e-6, 1e-9, 1e-10, 1e-12]))      # "all purities in (0,1]": the estimate (r*2^log2 - (1-p)*x)/p grows like 1/p
    chrpre = str(rng.choice(["chr", ""]))
    par = [None, "grch37", "grch38"][int(rng.integers(0, 3))]
    n = int(rng.integers(1, 40))
    chroms = sorted(rng.choice(["1", "2", "10", "X", "Y"], n), key=["1", "2", "10", "X", "Y"].index)
    if i % 5 == 3:
        chroms = list(rng.permutation(chroms))      # rows of one chromosome not adjacent (stacked / shuffled tables): each row is still called on its own values
    starts = np.cumsum(rng.integers(1000, 5_000_000, n))
    lg = rng.uniform(-30, 30, n)
    lg[rng.random(n) < 0.1] = -30.0
    lg[rng.random(n) < 0.1] = 30.0
    if rng.random() < 0.3:
        lg = np.round(lg)  # exact integer log2: r*2^log2 exactly integral
    cna = make_cna({"chromosome": [chrpre + c for c in chroms], "start": starts, "end": starts + 900,
                    "gene": ["G"] * n, "log2": lg, "probes": [5] * n, "weight": [1.0] * n}, odd=(i % 3 == 1))
    run.begin_case("random", i, cls="random:" + ("purity" if purity and purity < 1 else "pure"))
    import cnvlib.call as C
    for method in ("clonal", "threshold"):
        try:
            C.do_call(cna, None, method, ploidy, purity, bool(rng.integers(0, 2)), bool(rng.integers(0, 2)), par)
        except Exception:
            pass
    run.end_case(fp=rt.fingerprint([ploidy, purity, chrpre, par, lg], 12), nontrivial=True,
                 sample={"ploidy": ploidy, "purity": purity, "log2": lg[:5]} if i % 97 == 0 else None)


def _n_cli(tier):
    return 32 if tier == "quick" else 300


def case_cli(run, i):
    """`cnvkit.py call -m clonal` on a written .cns: plumbing of --purity/--ploidy/-x/-y/--diploid-parx-genome and the written file."""
    import os
    import shutil
    from skgenome import tabio
    from ..monitors import cli_plumb
    import cnvlib.call as C
    _n_cfg(run.tier)
    cfgs = _CFG[run.tier]
    cfg = cfgs[(i * 7919) % len(cfgs)]
    if i % 4 == 3:
        pure = [c for c in cfgs if c[1] >= 1.0]
        cfg = pure[(i * 104729) % len(pure)]        # --center-at is only driven without a purity
    ploidy, purity, male_ref, female, chrpre, par = cfg
    cna, rows, truth = _table_for(cfg)
    d = os.path.join(run.workdir, f"clicall{run.shard}_{i}")
    os.makedirs(d, exist_ok=True)
    inf, outf = os.path.join(d, "S.cns"), os.path.join(d, "S.call.cns")
    with run.monitor_scope():
        tabio.write(cna, inf)
    center_at = [0.25, -0.5][(i // 4) % 2] if (purity >= 1.0 and i % 4 == 3) else None     # with a purity the model's log2 must reach do_call unshifted
    argv = ["call", inf, "-m", "clonal", "--ploidy", str(ploidy), "-o", outf, "-x", cli_plumb.sex_arg(female, 3 * i + 3)]     # cycles through all four spellings within every residue class of i used above
    if purity < 1.0 or i % 3 == 0:
        argv += ["--purity", repr(purity)]
    if male_ref:
        argv.append("-y")
    if par:
        argv += ["--diploid-parx-genome", par]
    if center_at:
        argv += ["--center-at", str(center_at)]
    expect = dict(method="clonal", ploidy=ploidy, purity=(purity if "--purity" in argv else None), male_ref=male_ref,
                  female=(female if purity < 1.0 else None), par=par, filters=[], thresholds=None, center_at=center_at)
    run.begin_case("cli", i, cls="cli:clonal" + (":purity" if purity < 1 else ":pure"), truth_n=None if center_at else truth,
                   config=dict(ploidy=ploidy, purity=purity, male_ref=male_ref, female=female, naming=chrpre or "plain", par=par),
                   log2_tol=2e-3)     # the input went through the 6-significant-digit writer; at low purity the inversion amplifies that
    cli_plumb.check_call_cli(run, rt, inf, outf, argv, expect, [r[3] for r in rows] if False else [float("%.6g" % r[3]) for r in rows])
    shutil.rmtree(d, ignore_errors=True)
    run.end_case(fp=f"cli{i}", nontrivial=True)


WORKLOADS = {"config": (_n_cfg, case_config), "random": (_n_random, case_random), "cli": (_n_cli, case_cli)}
QUOTAS = {"quick": {"cli.call[plumbing]|held": 25, "class:cli-call:clonal:center-at": 4, "call.do_call|held": 800, "class:cfg:ploidy2:purity:par": 2, "class:cfg:ploidy2:purity:nopar:noX": 1, "class:cfg:ploidy1:purity:nopar": 10},
          "thorough": {"call.do_call|held": 5000, "cli.call[plumbing]|held": 250}}
