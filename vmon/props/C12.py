"""C12 — target and antitarget bins partition exactly the space they should.
Monitors on target.do_target and antitarget.do_antitarget compare the returned
bins with the base-set model; the C06 algebra monitors stay attached, so the
resize -> subtract -> subdivide chain is also observed from inside.
"""
import os

import numpy as np

from .. import runtime as rt
from ..gen import make_ga, random_intervals
from ..monitors import binning, ga_algebra
from ..models import formats as F

TITLE = "Target and antitarget bins partition exactly the space they should"
RULE = ("bait tables on 1..3 contigs (overlapping, nested, abutting, zero-width baits; at least one canonically named targeted contig; optional untargeted "
        "canonical and non-canonical contigs in the access table) x access tables (several regions per contig, or none) x avg 500..2e5 x min <= 0.75 avg "
        "(or default); do_target with/without split, short names, BED annotation. Distinct by fingerprint of (baits, access, sizes).")
ASSUMPTIONS = [
    "min_bin_size <= 0.75*avg_bin_size - 2 (above that the statement's two size rules contradict each other); with the default minimum, stretches within 2 bp of avg/16 may go either way",
    "at least one targeted contig is canonically named (the premise of the statement's contig rule); zero-width targets are not passed to antitarget (target drops them first)",
    "without an access table the accessible space is [150000, end of the chromosome's last target row), as documented",
]
BUDGET_S = {"quick": 600, "thorough": 2400}


def setup(run):
    t = binning.attach_c12(run, rt)
    t += ga_algebra.attach_all(run, rt)
    return t


def _baits(rng, chroms, scale):
    rows = []
    for c in chroms:
        n = int(rng.integers(1, 12))
        ivs = random_intervals(rng, n, scale, (c,))
        # spread the clusters out so there is off-target space between them
        off = 0
        out = []
        for k, (cc, s, e) in enumerate(ivs):
            if rng.random() < 0.3:
                off += int(rng.integers(0, 4 * scale))
            out.append((cc, s + off, e + off))
        out.sort(key=lambda r: (r[1], r[2]))
        rows += out
    return rows


def _safe(fn, *a, **k):
    try:
        return fn(*a, **k)
    except Exception:
        return None


def _n(tier):
    return 480 if tier == "quick" else 4800


def case_bins(run, i):
    import cnvlib.target as T
    import cnvlib.antitarget as A
    rng = run.rng("bins", i)
    pre = "chr" if rng.random() < 0.6 else ""
    canon = [pre + x for x in ("1", "2", "7", "10", "X")]        # "10" sorts before "2" as a string: natural and lexicographic order differ
    tchroms = list(rng.choice(canon, int(rng.integers(1, 4)), replace=False))
    tchroms.sort(key=canon.index)
    if rng.random() < 0.25:
        tchroms.append("chr6_alt" if pre else "HLA-A")       # a targeted non-canonical contig
    scale = int(rng.choice([2000, 50000, 10**6]))
    baits = _baits(rng, tchroms, scale)
    avg = int(rng.choice([500, 2000, 20000, 150000, 200000]))
    mn = None if rng.random() < 0.2 else int(rng.uniform(0, 0.75 * avg - 2))
    access = None
    if rng.random() < 0.8:
        achroms = list(tchroms)
        if rng.random() < 0.5:
            achroms.append(pre + "9")                          # untargeted canonical
        if rng.random() < 0.5:
            achroms += ["chrUn_gl000220" if pre else "MT", (pre + "1_random") if pre else "HLA-B"]   # untargeted non-canonical
        access = []
        nat = {c: k for k, c in enumerate([pre + x for x in ("1", "2", "7", "9", "10", "X")] + ["chr6_alt", "HLA-A", "chrUn_gl000220", "MT", pre + "1_random", "HLA-B"])}
        for c in sorted(achroms, key=lambda c: nat[c]):
            top = max([b[2] for b in baits if b[0] == c] + [scale]) + int(rng.integers(0, 6 * avg))
            pos = int(rng.choice([0, 100, 10000]))
            while pos < top:
                ln = int(rng.choice([300, 900, 1100, 5000, 10 * avg, top]))
                access.append((c, pos, min(pos + ln, top + 1)))
                pos += ln + int(rng.choice([1, 600, 1200, 20000]))
    # keep the number of antitarget bins per case bounded (a few thousand at most)
    span = sum(a[2] - a[1] for a in access) if access else sum(max([b[2] for b in baits if b[0] == c]) for c in tchroms)
    if span / avg > 3000:
        avg = int(span / 3000)
        if mn is not None:
            mn = int(min(mn, 0.75 * avg - 2))
    run.begin_case("bins", i, cls="bins:" + ("access" if access else "noaccess"))
    t_arr = make_ga([b + ("g%d" % k,) for k, b in enumerate(baits)], ("gene",), odd=(i % 3 == 1))
    a_arr = make_ga(access, odd=(i % 4 == 1)) if access else None
    _safe(A.do_antitarget, t_arr, a_arr, avg, mn)
    # target: add zero-width baits
    baits2 = list(baits)
    for _ in range(int(rng.integers(0, 3))):
        b = baits2[int(rng.integers(0, len(baits2)))]
        baits2.append((b[0], b[1], b[1]))
    tavg = float(rng.choice([200 / 0.75, 100, 1000, 3.5, max(1, scale // 7)]))
    if rng.random() < 0.3:
        # merged baits whose length is exactly (k + 1/2) * avg: the bin count is round()'s tie case
        tavg = float(2 * int(rng.choice([50, 100, 500])))
        c0 = tchroms[0]
        pos = max(b[2] for b in baits2 if b[0] == c0) + 1000
        for _ in range(int(rng.integers(2, 7))):
            ln = int(rng.integers(0, 9)) * int(tavg) + int(tavg) // 2
            if rng.random() < 0.4:
                m = pos + int(rng.integers(1, ln))
                baits2 += [(c0, pos, m), (c0, m, pos + ln)]
            else:
                baits2.append((c0, pos, pos + ln))
            pos += ln + int(rng.integers(1, 5000))
    order = {c: k for k, c in enumerate(tchroms)}
    baits2.sort(key=lambda r: (order[r[0]], r[1], r[2]))
    labels = ["ref|GENE%d,mRNA|AF%d,ens|ENST%d" % (k // 3, k // 3, k) for k in range(len(baits2))]
    if i % 5 == 4:
        # baits read from an interval list or a 6-column BED carry a strand; probes on both strands of one exon overlap, abut or nest
        b_arr = make_ga([b + (labels[k], "+-"[int(rng.integers(0, 2))]) for k, b in enumerate(baits2)], ("gene", "strand"), odd=(i % 3 == 2))
        run.extra["bait-tables-with-a-strand-column"] += 1
    else:
        b_arr = make_ga([b + (labels[k],) for k, b in enumerate(baits2)], ("gene",), odd=(i % 3 == 2))
    tspan = sum(b[2] - b[1] for b in baits2)
    if tspan / tavg > 3000:
        tavg = tspan / 3000 + 0.5
    _safe(T.do_target, b_arr, None, False, False, tavg)
    _safe(T.do_target, b_arr, None, False, True, tavg)
    _safe(T.do_target, b_arr, None, True, True, tavg)
    # annotation (BED4 written by the independent serialiser)
    ann = os.path.join(run.workdir, f"ann{run.shard}_{i}.bed")
    rows = [(c, max(0, s - 50), e + 50, "ANN%d" % k) for k, (c, s, e) in enumerate(baits[:: 2])]
    with open(ann, "w") as fh:
        fh.write(F.to_bed(rows, 4))
    _safe(T.do_target, b_arr, ann, bool(rng.integers(0, 2)), True, tavg)
    _safe(T.do_target, b_arr, ann, False, False, tavg)
    _safe(T.do_target, b_arr, ann, True, False, tavg)          # annotation + short names without --split, on a table that may hold zero-width baits
    os.remove(ann)
    run.end_case(fp=rt.fingerprint([baits, access, avg, mn], 12), nontrivial=len(baits) > 1,
                 sample={"baits": baits[:5], "access": access[:4] if access else None, "avg": avg, "min": mn} if i % 67 == 0 else None)


def _n_cli(tier):
    return 24 if tier == "quick" else 200


def _bed_rows(path):
    with open(path) as fh:
        return [(f[0], int(f[1]), int(f[2]), f[3] if len(f) > 3 else None) for f in (line.rstrip("\n").split("\t") for line in fh if line.strip())]


def case_cli(run, i):
    """`cnvkit.py target` / `antitarget` on written BED files: --split / -a / --short-names / --annotate and -g / -a / -m reach the
    functions unchanged, with the tables the files hold, and the BED written is the table returned."""
    import shutil
    import cnvlib.target as T
    import cnvlib.antitarget as A
    from ..monitors import cli_plumb
    rng = run.rng("cli", i)
    pre = "chr" if i % 2 else ""
    tchroms = [pre + x for x in ("1", "2", "10", "X")][: int(rng.integers(1, 5))]
    baits = _baits(rng, tchroms, int(rng.choice([2000, 50000])))
    d = os.path.join(run.workdir, f"cli12_{run.shard}_{i}")
    os.makedirs(d, exist_ok=True)
    pbait, ptgt, pacc, panti = (os.path.join(d, f) for f in ("baits.bed", "targets.bed", "access.bed", "anti.bed"))
    with open(pbait, "w") as fh:
        fh.write(F.to_bed([b + ("g%d" % k,) for k, b in enumerate(baits)], 4))
    split, short = bool(i % 2), bool((i // 2) % 2)
    avg = int(rng.choice([100, 267, 1000]))
    argv = ["target", pbait, "-o", ptgt, "-a", str(avg)] + (["--split"] if split else []) + (["--short-names"] if short else [])
    run.begin_case("cli", i, cls="cli:target+antitarget", argv=argv[2:])
    r = cli_plumb.check_cli(run, rt, T, "do_target", argv, dict(annotate=None, do_short_names=short, do_split=split, avg_size=avg), "target")
    if r is not None:
        got, res, wit = r
        if len(got["bait_arr"]) != len(baits):
            run.violate("cli.target[plumbing]", "target-cli-passes-wrong-table", f"{len(got['bait_arr'])} baits reached do_target, the file holds {len(baits)}", wit)
        elif not isinstance(res, Exception):
            want = list(zip(res.data["chromosome"], res.data["start"], res.data["end"], res.data["gene"]))
            if _bed_rows(ptgt) != [(c, int(s_), int(e), g) for c, s_, e, g in want]:
                run.violate("cli.target[plumbing]", "target-cli-file-differs-from-result", "the BED written is not the table do_target returned", wit)
            else:
                cli_plumb.held(run, "target", "cli-target")
    if os.path.exists(ptgt):
        top = {c: max(b[2] for b in baits if b[0] == c) + 300000 for c in tchroms}
        with open(pacc, "w") as fh:
            for c in tchroms:
                fh.write(f"{c}\t0\t{top[c]}\n")
        aavg, amin = int(rng.choice([20000, 50000])), [None, 1000, 5000][i % 3]
        use_acc = bool(i % 4)
        tin = ptgt
        if i % 3 == 0:
            # the target file handed to antitarget may hold zero-width rows (SNP-style baits): they still are targets
            tin = os.path.join(d, "targets_zw.bed")
            rows_t = _bed_rows(ptgt)
            extra = [(c, top[c] - 150000 + 7, top[c] - 150000 + 7, "snp") for c in tchroms]
            with open(tin, "w") as fh:
                for c, s_, e, g in sorted(rows_t + extra, key=lambda r: (tchroms.index(r[0]), r[1], r[2])):
                    fh.write(f"{c}\t{s_}\t{e}\t{g}\n")
        argv = ["antitarget", tin, "-o", panti, "-a", str(aavg)] + (["-m", str(amin)] if amin else []) + (["-g", pacc] if use_acc else [])
        r = cli_plumb.check_cli(run, rt, A, "do_antitarget", argv, dict(avg_bin_size=aavg, min_bin_size=amin, access=use_acc), "antitarget", truthy=("access",))
        if r is not None:
            got, res, wit = r
            ntgt = len(_bed_rows(tin))
            if len(got["targets"]) != ntgt or (use_acc and len(got["access"]) != len(tchroms)):
                run.violate("cli.antitarget[plumbing]", "antitarget-cli-passes-wrong-table", "the tables reaching do_antitarget are not the files' tables", wit)
            elif not isinstance(res, Exception):
                want = [(c, int(s_), int(e), g) for c, s_, e, g in zip(res.data["chromosome"], res.data["start"], res.data["end"], res.data["gene"])]
                if _bed_rows(panti) != want:
                    run.violate("cli.antitarget[plumbing]", "antitarget-cli-file-differs-from-result", "the BED written is not the table do_antitarget returned", wit)
                else:
                    cli_plumb.held(run, "antitarget", "cli-antitarget")
    shutil.rmtree(d, ignore_errors=True)
    run.end_case(fp=rt.fingerprint([baits, i], 12), nontrivial=True)


WORKLOADS = {"bins": (_n, case_bins), "cli": (_n_cli, case_cli)}
_Q = {"cli.target[plumbing]|held": 15, "cli.antitarget[plumbing]|held": 15, "target.do_target|held": 800, "antitarget.do_antitarget|held": 150, "GenomicArray.subtract|held": 100, "GenomicArray.subdivide|held": 300}
QUOTAS = {"quick": _Q, "thorough": _Q}
