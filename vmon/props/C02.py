"""C02 — threshold calls are a monotone step function of log2; cn1 + cn2 = cn.
Monitors on do_call / absolute_threshold / rescale_baf evaluate the step
function of the statement on every row they see; the workload places log2
exactly on, and one float either side of, every threshold and every integer
crossing of the ceil branch.
"""
import math

import numpy as np

from .. import runtime as rt
from ..gen import make_cna
from ..models import copynumber as CN
from ..monitors import calling

TITLE = "Threshold calls are a monotone step function; cn1+cn2=cn"
RULE = ("one table per (threshold vector, ploidy 1..6, reference sex, naming): rows on an autosome, X and Y at log2 = every threshold, nextafter on "
        "both sides, log2(k/r)+-1e-9 for k=1..3*ploidy+3, -30, +8, NaN and 50 uniform reals; threshold vectors: the default and random strictly "
        "increasing vectors of length 1..12 in [-3,3]; BAF column with values {0, .5, 1, random, NaN}, supplied directly or through a VariantArray "
        "(one heterozygous SNV per segment), with and without purity rescaling. Distinct by table fingerprint.")
ASSUMPTIONS = [
    "rows of the ceil branch whose r*2^log2 is within 1e-9 of an integer are skipped (float tie)",
    "monotonicity under the default thresholds is asserted for ploidy >= 2 (at ploidy 1 the definition itself is not monotone: ceil(2^log2) just above 0.7 is 2 < 4)",
]
BUDGET_S = {"quick": 600, "thorough": 2400}


def setup(run):
    return calling.attach_all(run, rt)


def _n(tier):
    return 480 if tier == "quick" else 6000


def _thresholds(rng, k):
    if k % 6 == 0:
        return calling.DEFAULT_THRESHOLDS
    n = int(rng.integers(1, 13))
    th = np.sort(np.round(rng.uniform(-3, 3, n), int(rng.integers(1, 5))))
    th = np.unique(th)
    return tuple(float(x) for x in th)


def case_table(run, i):
    rng = run.rng("table", i)
    ploidy = 1 + (i % 6)
    male_ref = bool((i // 6) % 2)
    chrpre = "chr" if (i // 12) % 2 else ""
    th = _thresholds(rng, i // 24)
    pts = []
    for t in th:
        pts += [t, float(np.nextafter(t, -np.inf)), float(np.nextafter(t, np.inf))]
    rows = []
    # every other table holds two autosomes whose natural order (9, 10) is not their string order ("10" < "9")
    for cname in ((("9", "10") if i % 7 < 3 else ("3",)) + ("X", "Y")):
        chrom = chrpre + cname
        r = CN.ref_copies_pure(chrom, ploidy, male_ref)
        cross = []
        if r > 0:
            for k in range(1, 3 * ploidy + 4):
                cross += [math.log2(k / r) - 1e-9, math.log2(k / r) + 1e-9]
        vals = pts + cross + [-30.0, 8.0, float("nan"), 0.0] + list(rng.uniform(-4, 4, 50))
        for v in vals:
            rows.append((chrom, v))
    if i % 6 == 4:
        # rows of one chromosome not adjacent (two tables stacked without re-sorting): every row is still called on its own values
        rows = rows[::2] + rows[1::2]
    n = len(rows)
    starts = np.arange(n) * 1000
    mode = i % 5
    baf = None
    if mode in (1, 2, 3):
        baf = rng.choice([0.0, 0.5, 1.0, np.nan, -1], n)
        rnd = rng.uniform(0, 1, n)
        baf = np.where(baf == -1, rnd, baf)
    cols = {"chromosome": [r[0] for r in rows], "start": starts, "end": starts + 900, "gene": ["G"] * n,
            "log2": [r[1] for r in rows], "probes": [10] * n, "weight": [1.0] * n}
    variants = None
    if mode == 1:
        cols["baf"] = baf
    elif mode in (2, 3):
        # through a real VariantArray: one heterozygous SNV inside each segment that has a BAF
        from cnvlib.vary import VariantArray
        import pandas as pd
        ok = ~np.isnan(baf)
        vdf = pd.DataFrame({"chromosome": np.array(cols["chromosome"])[ok], "start": starts[ok] + 10, "end": starts[ok] + 11,
                            "ref": "A", "alt": "C", "zygosity": 0.5, "alt_freq": baf[ok]})
        variants = VariantArray(vdf)
    purity = float(rng.choice([0.3, 0.6, 0.9])) if mode == 2 else (1.0 if i % 7 == 5 else None)      # purity exactly 1 is "no rescaling": thresholds apply to the log2 as given
    cna = make_cna(cols, odd=(i % 3 == 1), meta=("none" if i % 4 == 2 else None))     # a quarter without a metadata dict (naming styles alternate within the process)
    run.begin_case("table", i, cls=f"table:ploidy{ploidy}:{'default' if th == calling.DEFAULT_THRESHOLDS else 'custom'}:" +
                   ["nobaf", "baf", "baf+purity", "baf-variants", "nobaf"][mode])
    import cnvlib.call as C
    try:
        C.do_call(cna, variants, "threshold", ploidy, purity, male_ref, bool(rng.integers(0, 2)), None, None, th)
    except Exception:
        pass
    if mode == 1:
        try:
            C.do_call(cna[~np.isnan(cna["log2"].values)], None, "clonal", ploidy, None, male_ref)
        except Exception:
            pass
    run.end_case(fp=rt.fingerprint([ploidy, male_ref, chrpre, th, mode], 12), nontrivial=True,
                 sample={"ploidy": ploidy, "male_ref": male_ref, "thresholds": th, "log2": [r[1] for r in rows[:6]], "mode": mode} if i % 131 == 0 else None)


def _n_cli(tier):
    return 32 if tier == "quick" else 300


def case_cli(run, i):
    """`cnvkit.py call -m threshold` on a written .cns: plumbing of -t, --ploidy, -y, --filter (in order), --center-at, and the written file."""
    import os
    import shutil
    from skgenome import tabio
    from ..monitors import cli_plumb
    rng = run.rng("cli", i)
    ploidy = 1 + (i % 4)
    male_ref = bool((i // 4) % 2)
    th = _thresholds(rng, i)
    if i % 4 == 1:
        th = tuple(sorted(set(th) | {0.0}))          # a threshold of exactly zero (the help text's own example: -t=-1,0,1)
    chrpre = "chr" if i % 3 else ""
    n = int(rng.integers(5, 60))
    chroms = sorted(rng.choice(["3", "X", "Y"], n), key=["3", "X", "Y"].index)
    starts = np.cumsum(rng.integers(1000, 50000, n))
    lg = np.round(rng.uniform(-4, 4, n), 4)
    cols = {"chromosome": [chrpre + c for c in chroms], "start": starts, "end": starts + 900, "gene": ["G"] * n, "log2": lg, "probes": [10] * n, "weight": [1.0] * n}
    filters = [[], ["cn"], ["ampdel"], ["cn", "ampdel"], ["ampdel", "cn"]][i % 5]
    center_at = [None, None, 0.3][i % 3]
    d = os.path.join(run.workdir, f"clicall{run.shard}_{i}")
    os.makedirs(d, exist_ok=True)
    inf, outf = os.path.join(d, "S.cns"), os.path.join(d, "S.call.cns")
    with run.monitor_scope():
        tabio.write(make_cna(cols), inf)
    argv = ["call", inf, "-m", "threshold", "-t=" + ",".join(repr(t) for t in th), "--ploidy", str(ploidy), "-o", outf]
    if male_ref:
        argv.append("-y")
    for f in filters:
        argv += ["--filter", f]
    if center_at:
        argv += ["--center-at", str(center_at)]
    expect = dict(method="threshold", ploidy=ploidy, purity=None, male_ref=male_ref, female=None, par=None, filters=filters, thresholds=th, center_at=center_at)
    run.begin_case("cli", i, cls="cli:threshold" + (":filters" if filters else ""))
    cli_plumb.check_call_cli(run, rt, inf, outf, argv, expect, lg)
    shutil.rmtree(d, ignore_errors=True)
    run.end_case(fp=rt.fingerprint([ploidy, male_ref, th, filters, lg.tolist()], 12), nontrivial=True)


WORKLOADS = {"table": (_n, case_table), "cli": (_n_cli, case_cli)}
_Q = {"cli.call[plumbing]|held": 25, "call.do_call|held": 400, "call.absolute_threshold|held": 400, "call.do_call[allelic]|held": 150, "call.rescale_baf|held": 30}
QUOTAS = {"quick": _Q, "thorough": _Q}

INTERNAL_MONITORS = {"call.absolute_threshold": [], "call.rescale_baf": []}