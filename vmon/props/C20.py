"""C20 — exports state exactly the calls they were given.  Monitors on
export_bed / export_vcf / export_seg / merge_samples / fmt_cdt / fmt_jtv /
export_nexus_basic compare each output with the segments it came from (copy
numbers expected per chromosome and sex from the C01 model); the workload also
drives the export sub-commands so the file-level path is observed.
"""
import os
import shutil

import numpy as np

from .. import runtime as rt
from ..gen import make_cna
from ..models import copynumber as CN
from ..models import formats as F
from ..monitors import exports

TITLE = "Exports state exactly the calls they were given"
RULE = ("segment tables on autosomes, X, Y (and PAR-X/PAR-Y with a PAR genome when a cn column is present), segments starting at 0, cn below / equal to / "
        "above the expectation on every chromosome class, with or without a cn column (then log2 placed so that r*2^log2 is an integer +-0.2), ploidy 1..6 "
        "x sample sex x reference sex x naming; export_bed show all/ploidy/variant, export_vcf with/without bin-level CI; 1..5 sample files for "
        "seg/jtv/cdt incl. mismatching bins and duplicate sample IDs (must be refused); nexus-basic; every 4th case through the export sub-commands. "
        "Distinct by table fingerprint.")
ASSUMPTIONS = [
    "probes are integers (segments2vcf documents that it skips rows whose probes field is not an integer literal)",
    "without a cn column PAR bins are not generated (the two exporters use different reference copies there and the statement does not choose)",
    "rows whose r*2^log2 is within 1e-6 of k+1/2 are ignored (float tie)",
]
BUDGET_S = {"quick": 600, "thorough": 2400}


def setup(run):
    return exports.attach_all(run, rt)


def _segments(rng, ploidy, male_ref, female, pre, par, has_cn):
    regs = [(pre + "2", 0), (pre + "2", 5_000_000), (pre + "10", 1_000_000), (pre + "X", 30_000_000), (pre + "Y", 20_000_000)]     # natural order (2, 10) differs from string order
    if par and has_cn:
        px, py = CN.PAR[par]["X"], CN.PAR[par]["Y"]
        regs += [(pre + "X", px[0][0] + 100_000), (pre + "Y", py[0][0] + 100_000)]
        # segments flush with the PAR: the first starts exactly at PAR1's first base, the last ends exactly at PAR2's end (half-open: still inside)
        regs += [(pre + "X", px[0][0]), (pre + "Y", py[0][0]), (pre + "X", -px[1][1]), (pre + "Y", -py[1][1])]
    xl, yl = pre + "X", pre + "Y"
    cols = {k: [] for k in ("chromosome", "start", "end", "gene", "log2", "probes", "weight", "cn")}
    for c, base in regs:
        pos = base
        for _ in range(int(rng.integers(1, 5)) if base >= 0 else 1):
            ln = int(rng.integers(1000, 80_000))
            if base < 0:
                pos = -base - ln          # a single segment ending exactly at the given coordinate
            cls = CN.region_class(c, pos, pos + ln, par if has_cn else None, xl, yl)
            x = CN.expect_copies(cls, ploidy, female)
            r = CN.ref_copies_pure(c, ploidy, male_ref)
            n = max(0, x + int(rng.choice([-2, -1, 0, 0, 1, 2, 5])))
            if has_cn:
                lg = float(rng.normal(0, 1))
            elif r > 0 and n > 0:
                lg = float(np.log2(n / r) + rng.uniform(-0.2, 0.2) / max(n, 1))
            else:
                lg = float(rng.choice([-25.0, -6.0]))
            cols["chromosome"].append(c); cols["start"].append(pos); cols["end"].append(pos + ln); cols["gene"].append(str(rng.choice(["A", "B,C", "-"])))
            cols["log2"].append(lg); cols["probes"].append(int(rng.integers(1, 500))); cols["weight"].append(float(rng.uniform(1, 50))); cols["cn"].append(n)
            pos += ln + int(rng.choice([0, 10_000]))
    order = sorted(range(len(cols["start"])), key=lambda k: (["2", "10", "X", "Y"].index(cols["chromosome"][k].replace("chr", "")), cols["start"][k]))
    cols = {k: [v[i] for i in order] for k, v in cols.items()}
    if not has_cn:
        del cols["cn"]
    return cols


def _write_tab(path, cols):
    keys = list(cols)
    with open(path, "w") as fh:
        fh.write("\t".join(keys) + "\n")
        for i in range(len(cols[keys[0]])):
            fh.write("\t".join(repr(cols[k][i]) if isinstance(cols[k][i], float) else str(cols[k][i]) for k in keys) + "\n")


def _n(tier):
    return 300 if tier == "quick" else 4000


def case_export(run, i):
    import cnvlib.export as E
    import cnvlib.commands as K
    rng = run.rng("export", i)
    ploidy = 1 + (i % 6)
    male_ref, female = bool((i // 6) % 2), bool((i // 12) % 2)
    pre = "chr" if (i // 24) % 2 else ""
    has_cn = bool(i % 3)
    par = [None, "grch37", "grch38"][int(rng.integers(0, 3))]
    cols = _segments(rng, ploidy, male_ref, female, pre, par, has_cn)
    drop = {3: "X", 5: "Y", 7: "autosomes"}.get(i % 10)       # tables lacking a chromosome class: a panel without X targets, a female-only design, a sex-chromosome chunk
    if drop:
        keep = [k for k, c in enumerate(cols["chromosome"]) if ((c.replace("chr", "") in ("X", "Y")) if drop == "autosomes" else c.replace("chr", "") != drop)]
        if keep:
            cols = {k2: [v[k] for k in keep] for k2, v in cols.items()}
    d = os.path.join(run.workdir, f"e{run.shard}_{i}")
    os.makedirs(d, exist_ok=True)
    run.begin_case("export", i, cls=f"export:ploidy{ploidy}:{'cn' if has_cn else 'nocn'}" + (f":no-{drop}" if drop else ""))
    seg = make_cna(cols, meta={"sample_id": "SampleA"}, odd=(i % 3 == 1))

    def safe(fn, *a):
        try:
            return fn(*a)
        except Exception as exc:
            run.violate("export-workload", f"{getattr(fn, '__name__', 'call')}-raises-{type(exc).__name__}", f"{exc!r}", {"ploidy": ploidy, "has_cn": has_cn})
    for show in ("all", "ploidy", "variant"):
        safe(E.export_bed, seg, ploidy, male_ref, par, female, [None, "lbl"][int(rng.integers(0, 2))], show)
    safe(E.export_vcf, seg, ploidy, male_ref, par, female, None, None)
    safe(E.export_vcf, seg, ploidy, male_ref, par, female, "TUMOR1", None)
    safe(E.export_nexus_basic, seg)
    # sample files for seg / jtv / cdt
    nsamp = int(rng.integers(1, 6))
    files = []
    binc = {k: cols[k] for k in ("chromosome", "start", "end", "gene")}
    for k in range(nsamp):
        sc = dict(binc)
        sc["log2"] = [float(v) for v in rng.normal(0, 1, len(binc["start"]))]
        sc["probes"] = [int(v) for v in rng.integers(1, 300, len(binc["start"]))]
        fn = os.path.join(d, f"Smp{k}.cns")
        _write_tab(fn, sc)
        files.append(fn)
    safe(E.export_seg, files, False)
    if i % 5 == 0:
        safe(E.export_seg, files, True)
    mode = i % 4
    mfiles = list(files)
    if mode == 1 and nsamp >= 2:
        # one sample with a differing bin (coordinate or gene label)
        sc = dict(binc)
        sc["log2"] = [0.0] * len(binc["start"])
        if rng.random() < 0.5:
            sc["end"] = list(sc["end"]); sc["end"][-1] += 1
        else:
            sc["gene"] = list(sc["gene"]); sc["gene"][0] = "OTHER"
        fn = os.path.join(d, "Odd.cnr")
        _write_tab(fn, sc)
        mfiles.append(fn)
    elif mode == 2 and nsamp >= 1:
        os.makedirs(os.path.join(d, "dup"), exist_ok=True)
        fn = os.path.join(d, "dup", "Smp0.cns")      # same sample ID as the first file
        shutil.copy(files[0], fn)
        mfiles.append(fn)
        # export seg lists every file's segments under its ID, also when two files share one
        safe(E.export_seg, mfiles, False)
        safe(E.export_seg, [fn] + files, bool(i % 8 == 2))
    try:
        table = E.merge_samples(mfiles)
        sids = [c for c in table.columns if c not in ("chromosome", "start", "end", "gene", "label")]
        E.fmt_jtv(sids, table)
        E.fmt_cdt(sids, table)
    except Exception:
        pass
    if i % 4 == 0:
        # file-level path through the sub-commands
        segf = os.path.join(d, "SampleA.cns")
        _write_tab(segf, cols)
        sex = ("f", "x", "female", "Female")[(i // 4) % 4] if female else ("m", "y", "male", "Male")[(i // 4) % 4]
        common = ["--ploidy", str(ploidy), "-x", sex] + (["-y"] if male_ref else []) + (["--diploid-parx-genome", par] if par else [])
        # plumbing of the options into export_bed / export_vcf (the function monitors judge the calls themselves)
        from ..monitors import cli_plumb
        show = ["all", "variant", "ploidy"][(i // 4) % 3]
        r = cli_plumb.check_cli(run, rt, E, "export_bed", ["export", "bed", segf, "--show", show, "-o", os.path.join(d, "p.bed")] + common,
                                dict(dict(ploidy=ploidy, show=show, label="SampleA"),
                                     # only what the requested mode reads is demanded: the sample sex and the PAR genome matter for --show variant alone,
                                     # the reference sex only when copy numbers must be derived from log2 (no cn column)
                                     **(dict(is_sample_female=female, diploid_parx_genome=par) if show == "variant" else {}),
                                     **(dict(is_haploid_x_reference=male_ref) if "cn" not in cols else {})), "export-bed")
        if r is not None:
            cli_plumb.held(run, "export-bed", "cli-export-bed")
        r = cli_plumb.check_cli(run, rt, E, "export_vcf", ["export", "vcf", segf, "-o", os.path.join(d, "p.vcf"), "-i", "LBL"] + common,
                                dict(ploidy=ploidy, is_haploid_x_reference=male_ref, is_sample_female=female, diploid_parx_genome=par, sample_id="LBL", cnarr=None), "export-vcf")
        if r is not None:
            cli_plumb.held(run, "export-vcf", "cli-export-vcf")
        # jtv / cdt through the sub-commands with the files named in a non-sorted order: every sample's column must sit under its own ID
        if len(files) >= 2:
            import csv
            order = [files[k] for k in rng.permutation(len(files))]
            if order == sorted(order):
                order = order[::-1]
            per_file = {}
            for fn in order:
                with open(fn) as fh:
                    per_file[os.path.basename(fn).rsplit(".", 1)[0]] = [float(r["log2"]) for r in csv.DictReader(fh, delimiter="\t")]
            for fmt, skip in (("jtv", 0), ("cdt", 1)):
                outp = os.path.join(d, "q." + fmt)
                mon = f"cli.export-{fmt}[file]"
                try:
                    a = K.parse_args(["export", fmt] + order + ["-o", outp])
                    a.func(a)
                    with open(outp) as fh:
                        rows = list(csv.reader(fh, delimiter="\t"))
                    head, body = rows[0], rows[1 + (2 if fmt == "cdt" else 0):] if fmt == "cdt" else rows[1:]
                    bad = None
                    for sid, vals in per_file.items():
                        if sid not in head:
                            bad = f"no column headed {sid}"
                            break
                        j = head.index(sid)
                        got = [float(r[j]) for r in body if len(r) > j and r[j] not in ("", "EWEIGHT")]
                        if len(got) != len(vals) or any(abs(g - v) > 1e-5 * abs(v) + 1e-9 for g, v in zip(got, vals)):
                            bad = f"the column headed {sid} does not hold {sid}'s log2 values"
                            break
                    if bad:
                        run.violate(mon, f"export-{fmt}-cli-columns-under-wrong-sample", bad, {"files_in_order": order, "header": head})
                    else:
                        run.held(mon, f"cli-export-{fmt}")
                except Exception as exc:
                    run.extra[f"cli-raised:{fmt}:{type(exc).__name__}"] += 1
        for argv in (["export", "bed", segf, "--show", "variant", "-o", os.path.join(d, "o.bed")] + common,
                     ["export", "vcf", segf, "-o", os.path.join(d, "o.vcf")] + common,
                     ["export", "seg"] + files + ["-o", os.path.join(d, "o.seg")],
                     ["export", "jtv"] + files + ["-o", os.path.join(d, "o.jtv")],
                     ["export", "cdt"] + files + ["-o", os.path.join(d, "o.cdt")],
                     ["export", "nexus-basic", files[0], "-o", os.path.join(d, "o.nexus")]):
            try:
                a = K.parse_args(argv)
                a.func(a)
                run.extra[f"cli:{argv[1]}"] += 1
            except Exception as exc:
                run.extra[f"cli-raised:{argv[1]}:{type(exc).__name__}"] += 1
    shutil.rmtree(d, ignore_errors=True)
    run.end_case(fp=rt.fingerprint([cols, ploidy, male_ref, female, par], 12), nontrivial=True,
                 sample={"ploidy": ploidy, "male_ref": male_ref, "female": female, "par": par, "chromosome": cols["chromosome"][:4], "cn": cols.get("cn", [None])[:4]} if i % 83 == 0 else None)


WORKLOADS = {"export": (_n, case_export)}
_Q = {"cli.export-bed[plumbing]|held": 40, "cli.export-vcf[plumbing]|held": 40, "export.export_bed|held": 800, "export.export_vcf|held": 500, "export.export_seg|held": 300, "export.merge_samples|held": 250,
      "export.fmt_jtv|held": 120, "export.fmt_cdt|held": 120, "export.export_nexus_basic|held": 300, "class:merge:refused-mismatch": 20,
      "class:merge:refused-duplicate-id": 20}
QUOTAS = {"quick": _Q, "thorough": _Q}
