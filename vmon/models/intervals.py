"""Independent reference model of interval arithmetic on plain tuples.

A *table* is a list of rows (chrom, start, end, *extras) in table order.
A *base set* is {chrom: [(s, e), ...]} with disjoint, sorted, non-abutting runs:
two interval collections cover the same bases iff their base sets are equal.
No pandas, no skgenome.
"""
import re


def runs(ivs):
    """Canonical maximal runs of the union of [(s, e)] (positive length only)."""
    out = []
    for s, e in sorted((s, e) for s, e in ivs if e > s):
        if out and s <= out[-1][1]:
            if e > out[-1][1]:
                out[-1][1] = e
        else:
            out.append([s, e])
    return [(s, e) for s, e in out]


def base_set(rows):
    by = {}
    for r in rows:
        by.setdefault(r[0], []).append((r[1], r[2]))
    bs = {c: runs(v) for c, v in by.items()}
    return {c: v for c, v in bs.items() if v}


def runs_subtract(a, b):
    """a, b canonical runs -> canonical runs of a minus b."""
    out = []
    j = 0
    for s, e in a:
        cur = s
        while j < len(b) and b[j][1] <= cur:
            j += 1
        k = j
        while k < len(b) and b[k][0] < e:
            bs, be = b[k]
            if bs > cur:
                out.append((cur, bs))
            cur = max(cur, be)
            k += 1
        if cur < e:
            out.append((cur, e))
    return [(s, e) for s, e in out if e > s]


def runs_intersect(a, b):
    out = []
    for s, e in a:
        for bs, be in b:
            lo, hi = max(s, bs), min(e, be)
            if hi > lo:
                out.append((lo, hi))
    return runs(out)


def set_subtract(A, B):
    out = {}
    for c, a in A.items():
        r = runs_subtract(a, B.get(c, []))
        if r:
            out[c] = r
    return out


def set_intersect(A, B):
    out = {}
    for c, a in A.items():
        if c in B:
            r = runs_intersect(a, B[c])
            if r:
                out[c] = r
    return out


def set_size(A):
    return sum(e - s for v in A.values() for s, e in v)


def chrom_groups(rows):
    """[(chrom, [rows])] in order of first appearance; None if a chromosome's
    rows are not contiguous."""
    groups, seen = [], set()
    for r in rows:
        if groups and groups[-1][0] == r[0]:
            groups[-1][1].append(r)
        else:
            if r[0] in seen:
                return None
            seen.add(r[0])
            groups.append((r[0], [r]))
    return groups


def is_sorted_table(rows, positive=True):
    g = chrom_groups(rows)
    if g is None:
        return False
    for _c, rs in g:
        for a, b in zip(rs, rs[1:]):
            if (a[1], a[2]) > (b[1], b[2]):
                return False
        if positive and any(r[2] <= r[1] for r in rs):
            return False
    return True


def has_nesting(rows):
    """Some row's end lies before an earlier row's end (per chromosome)."""
    for _c, rs in chrom_groups(rows) or []:
        m = None
        for r in rs:
            if m is not None and r[2] < m:
                return True
            m = r[2] if m is None else max(m, r[2])
    return False


# ------------------------------------------------------------------- merge

def merge_groups(rs, bp=0):
    """Groups of one chromosome's sorted rows as `merge(bp)` documents: a row
    joins the running group while start - (largest end so far) <= -bp."""
    groups = []
    maxend = None
    for r in rs:
        if groups and r[1] - maxend <= -bp:
            groups[-1].append(r)
            maxend = max(maxend, r[2])
        else:
            groups.append([r])
            # NB the library's running maximum is over the whole chromosome so far
            maxend = r[2] if maxend is None else max(maxend, r[2])
    return groups


def merge_rows(rows, bp=0):
    """Expected (chrom, start, end) rows of merge(bp), chromosome by chromosome."""
    out = []
    for c, rs in chrom_groups(rows):
        for g in merge_groups(rs, bp):
            out.append((c, g[0][1], max(r[2] for r in g)))
    return out


def join_distinct(names):
    seen, out = set(), []
    for n in names:
        if n not in seen:
            seen.add(n)
            out.append(n)
    return ",".join(out)


# ------------------------------------------------------------------ flatten

def flatten_pieces(rs):
    """Elementary covered pieces of one chromosome's rows: (s, e, covering rows)."""
    pts = sorted({p for r in rs for p in (r[1], r[2])})
    out = []
    for s, e in zip(pts, pts[1:]):
        cov = [r for r in rs if r[1] <= s and r[2] >= e]
        if cov:
            out.append((s, e, cov))
    return out


# ----------------------------------------------------------------- subtract

def subtract_rows(a_rows, b_rows):
    """Expected rows of a.subtract(b): per a-row, in order, its maximal pieces
    outside b, carrying the a-row's other fields."""
    B = base_set(b_rows)
    out = []
    for r in a_rows:
        for s, e in runs_subtract([(r[1], r[2])], B.get(r[0], [])):
            out.append((r[0], s, e) + tuple(r[3:]))
    return out


# ----------------------------------------------------------------- subdivide

def subdivide_counts(span, avg):
    """The bin count of a merged region: max(1, round(span/avg)) with Python's
    round (the statement's formula read literally; exact .5 ties go to the even
    neighbour)."""
    return {max(1, int(round(span / avg)))}


def subdivide_is_tie(span, avg):
    q = span / avg
    return q - int(q) == 0.5


# ------------------------------------------------------------------- resize

def resize_rows(rows, bp, sizes=None):
    out = []
    for r in rows:
        s, e = r[1] - bp, r[2] + bp
        s, e = max(s, 0), max(e, 0)
        if sizes:
            s, e = min(s, sizes[r[0]]), min(e, sizes[r[0]])
        if bp < 0 and e - s <= 0:
            continue
        out.append((r[0], s, e) + tuple(r[3:]))
    return out


# ------------------------------------------------------------ range queries

def overlaps(r, qs, qe):
    """Row overlaps [qs, qe) by at least one base; None = unbounded."""
    return (qs is None or r[2] > qs) and (qe is None or r[1] < qe)


def contained(r, qs, qe):
    return (qs is None or r[1] >= qs) and (qe is None or r[2] <= qe)


def clip(r, qs, qe):
    s = r[1] if qs is None else max(r[1], qs)
    e = r[2] if qe is None else min(r[2], qe)
    return (r[0], s, e) + tuple(r[3:])


def select(rows, chrom, qs, qe, mode):
    """Rows (with their positions) of `rows` on `chrom` selected by the query."""
    out = []
    for i, r in enumerate(rows):
        if chrom is not None and r[0] != chrom:
            continue
        if mode == "inner":
            if contained(r, qs, qe):
                out.append((i, r))
        elif overlaps(r, qs, qe):
            out.append((i, clip(r, qs, qe) if mode == "trim" else r))
    return out


# ---------------------------------------------------------- chromosome names

_CANON = re.compile(r"^(chr)?(\d+|[XYxy])$")


def is_canonical_name(name):
    return bool(_CANON.match(name))
