"""Independent serialisers of a region table into each supported format, and
the natural chromosome order of the statement (1 < 2 < 10 < X < Y < M).
Truth rows are (chrom, start, end, gene) in 0-based half-open coordinates.
No skgenome import.
"""
import re


def canon_key(name):
    """Sort key for canonical chromosome names, None for anything else."""
    n = name[3:] if name.startswith("chr") else name
    if re.fullmatch(r"\d+", n):
        return (0, int(n))
    if n == "X":
        return (1, 0)
    if n == "Y":
        return (1, 1)
    if n == "M":
        return (2, 0)
    return None


def check_sorted(rows):
    """rows: [(chrom, start, end, ...)] as returned by a reader.  Returns None
    if sorted as the statement says, else a message."""
    seen, prev = set(), None
    last_key = None
    for i, r in enumerate(rows):
        c = r[0]
        if c != prev:
            if c in seen:
                return f"rows of {c} are not contiguous (row {i})"
            seen.add(c)
            k = canon_key(c)
            if k is not None:
                if last_key is not None and k < last_key:
                    return f"chromosome {c} after a later one (row {i})"
                last_key = k
            prev = c
        elif (rows[i - 1][1], rows[i - 1][2]) > (r[1], r[2]):
            return f"{c}: row {i} ({r[1]},{r[2]}) before ({rows[i - 1][1]},{rows[i - 1][2]}) is out of start/end order"
    return None


def mixed_style(rows):
    """'chr1' and '1' for the same chromosome in one table: outside the claim."""
    names = {r[0] for r in rows}
    return any(("chr" + n) in names for n in names if not n.startswith("chr"))


# ------------------------------------------------------------- serialisers

def to_bed(rows, ncol=4, track=False):
    out = []
    if track:
        out.append('track name="t1" description="x"')
    for c, s, e, g in rows:
        f = [c, str(s), str(e)]
        if ncol >= 4:
            f.append(g)
        if ncol >= 6:
            f += ["0", "+"]
        if ncol >= 7:
            f.append("extra stuff")
        out.append("\t".join(f))
    return "\n".join(out) + "\n"


def to_interval(rows, header=True, strands=("+",)):
    out = []
    if header:
        out += ["@HD\tVN:1.4\tSO:unsorted"]
        for c in dict.fromkeys(r[0] for r in rows):
            out.append(f"@SQ\tSN:{c}\tLN:400000000")
    for c, s, e, g in rows:
        out.append("\t".join([c, str(s + 1), str(e), strands[len(out) % len(strands)], g]))
    return "\n".join(out) + "\n"


def to_text(rows, with_gene=False):
    return "".join(f"{c}:{s + 1}-{e}" + (f"\t{g}" if with_gene else "") + "\n" for c, s, e, g in rows)


def to_gff(rows, version_line=True):
    out = ["##gff-version 3"] if version_line else []
    for c, s, e, g in rows:
        out.append("\t".join([c, "src", "exon", str(s + 1), str(e), ".", "+", ".", f"ID=x;Name={g}"]))
    return "\n".join(out) + "\n"


def to_tab(rows, extra=None):
    cols = ["chromosome", "start", "end", "gene"] + (list(extra) if extra else [])
    out = ["\t".join(cols)]
    for i, (c, s, e, g) in enumerate(rows):
        f = [c, str(s), str(e), g]
        for k in (extra or {}):
            f.append(repr(extra[k][i]))
        out.append("\t".join(f))
    return "\n".join(out) + "\n"


def to_seg(samples, with_probes=True):
    """samples: [(sample_id, [(chrom, start, end, probes, mean)])]"""
    out = ["\t".join(["ID", "chrom", "loc.start", "loc.end"] + (["num.mark"] if with_probes else []) + ["seg.mean"])]
    for sid, rows in samples:
        for c, s, e, p, m in rows:
            out.append("\t".join([sid, c, str(s + 1), str(e)] + ([str(p)] if with_probes else []) + [repr(m)]))
    return "\n".join(out) + "\n"


def to_picardhs(rows):
    out = ["\t".join(["chrom", "start", "end", "length", "name", "%gc", "mean_coverage", "normalized_coverage"])]
    for c, s, e, g in rows:
        out.append("\t".join([c, str(s + 1), str(e), str(e - s), g, "0.5", "100.0", "1.0"]))
    return "\n".join(out) + "\n"


def to_vcf(rows, with_end=False):
    """One record per row: a SNV at POS=start+1 (end = start+1), or with
    INFO END for a structural record."""
    contigs = list(dict.fromkeys(r[0] for r in rows))
    out = ["##fileformat=VCFv4.2", '##INFO=<ID=END,Number=1,Type=Integer,Description="End">',
           '##INFO=<ID=SVTYPE,Number=1,Type=String,Description="Type">', '##ALT=<ID=DEL,Description="Deletion">']
    out += [f"##contig=<ID={c},length=400000000>" for c in contigs]
    out.append("\t".join(["#CHROM", "POS", "ID", "REF", "ALT", "QUAL", "FILTER", "INFO"]))
    for c, s, e, g in rows:
        if with_end:
            out.append("\t".join([c, str(s + 1), ".", "N", "<DEL>", ".", ".", f"SVTYPE=DEL;END={e}"]))
        else:
            out.append("\t".join([c, str(s + 1), ".", "A", "C", ".", ".", "."]))
    return "\n".join(out) + "\n"


def sig6(x, y):
    """Equal to 6 significant digits (as after %.6g)."""
    if x == y:
        return True
    if x != x or y != y:
        return x != x and y != y
    return abs(x - y) <= 5.0000001e-6 * max(abs(x), abs(y))
