"""Independent model of reference / expected copy numbers and of the calling
rules, written from the property statements (C01, C02, C20).  No cnvlib import.
"""
import math
import re

# PAR intervals as published for the two builds (only used with a safety
# margin by the generators; the model itself classifies by containment)
PAR = {
    "grch37": {"X": [(60000, 2699520), (154931043, 155260560)], "Y": [(10000, 2649520), (59034049, 59363566)]},
    "grch38": {"X": [(10000, 2781479), (155701382, 156030895)], "Y": [(10000, 2781479), (56887902, 57217415)]},
}


def chrom_class(name):
    if re.fullmatch(r"(chr)?\d+", name):
        return "auto"
    if name in ("chrX", "X"):
        return "x"
    if name in ("chrY", "Y"):
        return "y"
    return "other"


def region_class(name, start, end, par_genome=None, x_label=None, y_label=None):
    """auto / x / y / parx / pary / other.  x_label/y_label: the table's sex
    chromosome names (the package derives them from the first row's prefix)."""
    if x_label is not None:
        cls = "x" if name == x_label else "y" if name == y_label else "auto" if re.fullmatch(r"(chr)?\d+", name) else "other"
    else:
        cls = chrom_class(name)
    if par_genome and cls in ("x", "y"):
        for s, e in PAR[par_genome.lower()]["X" if cls == "x" else "Y"]:
            if start >= s and end <= e:
                return "par" + cls
    return cls


def labels_for(first_chrom):
    pre = "chr" if first_chrom.startswith("chr") else ""
    return pre + "X", pre + "Y"


def ref_copies(cls, ploidy, male_reference):
    """Copies in the reference (purity-aware path)."""
    if cls in ("auto", "other", "parx"):
        return ploidy
    if cls == "x":
        return ploidy // 2 if male_reference else ploidy
    if cls == "y":
        return ploidy // 2
    if cls == "pary":
        return 0
    raise KeyError(cls)


def expect_copies(cls, ploidy, female_sample):
    """Copies in the patient's germline."""
    if cls in ("auto", "other", "parx"):
        return ploidy
    if cls == "x":
        return ploidy if female_sample else ploidy // 2
    if cls == "y":
        return 0 if female_sample else ploidy // 2
    if cls == "pary":
        return 0
    raise KeyError(cls)


def ref_copies_pure(name, ploidy, male_reference):
    """Pure / threshold path: by chromosome name only (no PAR, no sample sex)."""
    n = name.lower()
    if n in ("chry", "y") or (male_reference and n in ("chrx", "x")):
        return ploidy // 2
    return ploidy


def mix_log2(n, purity, x, r):
    """Forward mixing model: log2((p*n + (1-p)*x) / r); None when undefined."""
    v = purity * n + (1 - purity) * x
    if r <= 0 or v <= 0:
        return None
    return math.log2(v / r)


def threshold_cn(log2, thresholds, r, ploidy):
    """The step function of the statement. NaN -> r."""
    if log2 is None or math.isnan(log2):
        return r
    k = sum(1 for t in thresholds if t < log2)
    if k < len(thresholds):
        return k if r == ploidy else int(k * r / ploidy)
    return int(math.ceil(r * 2.0 ** log2))


def near_half(x, eps=1e-6):
    return abs((x - math.floor(x)) - 0.5) < eps


def near_int(x, eps=1e-9):
    return abs(x - round(x)) < eps * max(1.0, abs(x))
