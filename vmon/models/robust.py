"""Independent transcriptions of the published estimator formulas (numpy only;
no import of cnvlib).  Constants are the package's documented ones.
"""
import math

import numpy as np


def strip_nan(a, w=None):
    a = np.asarray(a, dtype=float)
    keep = ~np.isnan(a)
    if w is None:
        return a[keep]
    w = np.asarray(w, dtype=float)[keep].copy()
    w[np.isnan(w)] = 0.0
    return a[keep], w


def percentile_linear(a, q):
    """q in [0, 100]; linear interpolation between order statistics."""
    s = np.sort(np.asarray(a, dtype=float))
    n = len(s)
    pos = (n - 1) * q / 100.0
    lo = int(math.floor(pos))
    hi = min(lo + 1, n - 1)
    frac = pos - lo
    return s[lo] + (s[hi] - s[lo]) * frac


def median(a):
    return percentile_linear(a, 50)


def mad(a, scale=True):
    m = median(a)
    r = median(np.abs(np.asarray(a, dtype=float) - m))
    return r * 1.4826 if scale else r


def iqr(a):
    return percentile_linear(a, 75) - percentile_linear(a, 25)


def gapper(a):
    s = np.sort(np.asarray(a, dtype=float))
    n = len(s)
    tot = 0.0
    for i in range(1, n):
        tot += i * (n - i) * (s[i] - s[i - 1])
    return tot * math.sqrt(math.pi) / (n * (n - 1))


def q_n(a):
    a = np.asarray(a, dtype=float)
    n = len(a)
    d = np.abs(a[:, None] - a[None, :])[np.triu_indices(n, 1)]
    q = percentile_linear(d, 25)
    if n <= 10:
        c = 1.392
    elif n < 400:
        c = 1.0 + 4.0 / n
    else:
        c = 1.0
    return q / c


def biweight_location(a, c=6.0, eps=1e-3, max_iter=5):
    """Tukey's biweight location: iterate from the median with MAD scale,
    weights (1-u^2)^2 for |u| < 1.  Returns (value, well_conditioned)."""
    a = np.asarray(a, dtype=float)
    cur = median(a)
    ok = True
    res = cur
    for _ in range(max_iter):
        d = a - cur
        s = median(np.abs(d))
        if c * s < eps:
            ok = False  # the package floors the scale here; the published formula has no floor
        u = d / max(c * s, eps)
        m = np.abs(u) < 1
        w = (1 - u[m] ** 2) ** 2
        if w.sum() == 0:
            res = cur
        else:
            res = cur + (d[m] * w).sum() / w.sum()
        if abs(res - cur) <= eps:
            break
        cur = res
    return res, ok


def biweight_midvariance_variants(a, center, c=9.0, eps=1e-3):
    """Admissible values: published formula with n = number of points inside
    the cutoff, or n = sample size; plus the MAD fall-back when the u's cancel.
    Returns (list of admissible values, well_conditioned)."""
    a = np.asarray(a, dtype=float)
    d = a - center
    s = median(np.abs(d))
    if c * s < eps:
        return [s * 1.4826], False
    u = d / (c * s)
    m = np.abs(u) < 1
    num = (d[m] ** 2 * (1 - u[m] ** 2) ** 4).sum()
    den = ((1 - u[m] ** 2) * (1 - 5 * u[m] ** 2)).sum() ** 2
    vals = []
    if den > 0:
        vals.append(math.sqrt(m.sum() * num / den))
        vals.append(math.sqrt(len(a) * num / den))
    usum = u[m].sum()
    if abs(usum) <= 1e-9 * max(1e-300, np.abs(u[m]).sum()) or usum == 0:
        vals.append(s * 1.4826)
    return vals, True


def weighted_std(a, w):
    a, w = np.asarray(a, float), np.asarray(w, float)
    mu = (a * w).sum() / w.sum()
    return math.sqrt((w * (a - mu) ** 2).sum() / w.sum())


def half_weight_ok(values, weights, m, tol=1e-9):
    """weight(values < m) <= W/2 and weight(values > m) <= W/2."""
    values, weights = np.asarray(values, float), np.asarray(weights, float)
    W = weights.sum()
    tv = 1e-9 * max(1.0, abs(m))   # values within rounding of m count as equal to it
    lo = weights[values < m - tv].sum()
    hi = weights[values > m + tv].sum()
    return lo <= W / 2 + tol * max(W, 1e-300) and hi <= W / 2 + tol * max(W, 1e-300), (lo, hi, W)


def rolling_median_mirror(x, wing):
    """Median over a window of 2*wing+1 on the mirror-padded signal."""
    x = np.asarray(x, float)
    pad = np.concatenate((x[wing - 1::-1], x, x[:-wing - 1:-1]))
    return np.array([np.median(pad[i:i + 2 * wing + 1]) for i in range(len(x))])


def width_to_wing(width, n, min_wing=3):
    """The documented width rule: a fraction of the length, or an integer window."""
    if 0 < width < 1:
        wing = int(math.ceil(n * width * 0.5))
    else:
        width = min(width, n - 1)
        wing = int(width // 2)
    wing = max(wing, min_wing)
    return min(wing, n - 1)
