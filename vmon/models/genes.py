"""Independent model of gene grouping over plain tuples (C16)."""
ANTITARGET = "Antitarget"
ALIASES = ("Antitarget", "Background")
DEFAULT_IGNORE = ("-", ".", "CGH")


def chrom_blocks(names):
    """[(chrom, [positions])] in order of first appearance; None if a
    chromosome's rows are not contiguous."""
    blocks, seen = [], set()
    for i, c in enumerate(names):
        if blocks and blocks[-1][0] == c:
            blocks[-1][1].append(i)
        else:
            if c in seen:
                return None
            seen.add(c)
            blocks.append((c, [i]))
    return blocks


def gene_groups(chroms, genes, ignore=DEFAULT_IGNORE):
    """Expected sequence [(name, [row positions])], or (None, reason) when the
    table is outside the property's premise."""
    ign = set(ignore) | set(ALIASES)
    blocks = chrom_blocks(chroms)
    if blocks is None:
        return None, "chromosome-not-contiguous"
    out = []
    for _c, pos in blocks:
        first, last = {}, {}
        for k, i in enumerate(pos):
            g = genes[i]
            if g is None or g != g:
                return None, "missing-gene-name"
            if "," in g:
                return None, "multi-gene-bin"
            if g in ign:
                continue
            first.setdefault(g, k)
            last[g] = k
        order = sorted(first, key=lambda g: first[g])
        # premise: every gene's bins are consecutive (interrupted only by ignored names)
        for g in order:
            for k in range(first[g], last[g] + 1):
                h = genes[pos[k]]
                if h != g and h not in ign:
                    return None, "gene-bins-not-consecutive"
        prev = 0
        for g in order:
            if prev < first[g]:
                out.append((ANTITARGET, [pos[k] for k in range(prev, first[g])]))
            out.append((g, [pos[k] for k in range(first[g], last[g] + 1)]))
            prev = last[g] + 1
        if prev < len(pos):
            out.append((ANTITARGET, [pos[k] for k in range(prev, len(pos))]))
    return out, None


def wmean(vals, weights):
    sw = sum(weights)
    if sw > 0:
        return sum(v * w for v, w in zip(vals, weights)) / sw
    return sum(vals) / len(vals)
