"""Shared helpers: conversions between library arrays and plain tuples, and
generators of interval tables (systematic small scopes and a biased random
grammar)."""
import itertools

import numpy as np
import pandas as pd


def ga_rows(ga, extras=None):
    """Rows of a GenomicArray / DataFrame as plain tuples
    (chrom, start, end, *extras in column order)."""
    df = ga.data if hasattr(ga, "data") else ga
    cols = ["chromosome", "start", "end"]
    if extras is None:
        extras = [c for c in df.columns if c not in cols]
    lists = [df[c].tolist() for c in cols + list(extras)]
    if not extras:
        return [(str(c), int(s), int(e)) for c, s, e in zip(*lists)]
    return [(str(t[0]), int(t[1]), int(t[2])) + tuple(_plain(x) for x in t[3:]) for t in zip(*lists)]


def _plain(x):
    if isinstance(x, (np.integer,)):
        return int(x)
    if isinstance(x, (float, np.floating)):
        x = float(x)
        return None if x != x else x
    if x is None or x is pd.NA:
        return None
    return x


def make_ga(rows, extras=(), cls=None, meta=None, odd=False):
    """odd=True: non-default (unique, increasing) row labels, as a filtered array has."""
    from skgenome import GenomicArray
    cls = cls or GenomicArray
    cols = ["chromosome", "start", "end"] + list(extras)
    if rows:
        df = pd.DataFrame.from_records(list(rows), columns=cols)
    else:
        df = pd.DataFrame({c: pd.Series([], dtype=(str if c == "chromosome" or c in ("gene", "strand") else "int64" if c in ("start", "end", "probes") else float)) for c in cols})
    if odd and len(df):
        df.index = np.arange(len(df)) * 3 + 2
    return cls(df, meta)


# ------------------------------------------------------------- small scopes

def small_intervals(maxcoord):
    return [(s, e) for s in range(maxcoord) for e in range(s + 1, maxcoord + 1)]


def multisets(items, maxsize):
    out = []
    for k in range(maxsize + 1):
        out.extend(itertools.combinations_with_replacement(items, k))
    return out


# -------------------------------------------------------------- random grammar

def random_intervals(rng, n, maxcoord=10**6, chroms=("chr1",)):
    """Sorted rows biased toward duplicates, abutting, overlapping, nested and
    chains of nested intervals."""
    rows = []
    for c in chroms:
        k = int(rng.integers(0, n + 1)) if len(chroms) > 1 else n
        ivs = []
        scale = int(rng.choice([20, 200, 5000, maxcoord]))
        while len(ivs) < k:
            kind = rng.integers(0, 8) if ivs else 0
            if kind == 0 or not ivs:      # fresh
                s = int(rng.integers(0, max(1, scale - 1)))
                e = s + int(rng.integers(1, max(2, scale // 4)))
            else:
                ps, pe = ivs[int(rng.integers(0, len(ivs)))]
                if kind == 1:             # duplicate
                    s, e = ps, pe
                elif kind == 2:           # abutting on the right
                    s, e = pe, pe + int(rng.integers(1, max(2, scale // 8)))
                elif kind == 3:           # abutting on the left
                    w = int(rng.integers(1, max(2, scale // 8)))
                    s, e = max(0, ps - w), ps
                elif kind == 4:           # overlapping right
                    s = int(rng.integers(ps, pe))
                    e = pe + int(rng.integers(0, max(1, scale // 8)) + 1)
                elif kind == 5:           # nested strictly inside (if room)
                    if pe - ps >= 3:
                        s = int(rng.integers(ps + 1, pe - 1))
                        e = int(rng.integers(s + 1, pe))
                    else:
                        s, e = ps, pe
                elif kind == 6:           # same start, shorter/longer
                    s, e = ps, ps + int(rng.integers(1, max(2, 2 * (pe - ps))))
                else:                     # same end
                    e = pe
                    s = int(rng.integers(max(0, ps - (pe - ps)), pe))
            e = min(e, maxcoord + scale)
            if e > s:
                ivs.append((s, e))
        rows.extend((c, s, e) for s, e in sorted(ivs))
    return rows


def with_extras(rng, rows, extras):
    out = []
    for i, r in enumerate(rows):
        ex = []
        for col in extras:
            if col == "gene":
                ex.append(str(rng.choice(["A", "B", "C", "D", "G%d" % i, "-"])))
            elif col == "strand":
                ex.append(str(rng.choice(["+", "-"])))
            elif col == "weight":
                ex.append(float(np.round(rng.uniform(0.1, 1.0), 3)))
            elif col == "probes":
                ex.append(int(rng.integers(1, 50)))
            elif col == "score":
                ex.append(float(np.round(rng.normal(), 3)))
            else:
                raise KeyError(col)
        out.append(tuple(r) + tuple(ex))
    return out


# ------------------------------------------------------------ copy-number arrays

def make_cna(columns, meta=None, index=None, odd=False):
    """CopyNumArray from a dict of columns (chromosome,start,end,gene,log2,...).
    odd=True gives non-default (unique, increasing) row labels, as a filtered
    array has: label-vs-position slips only show on such tables."""
    from cnvlib.cnary import CopyNumArray
    df = pd.DataFrame(columns)
    if index is None and odd:
        index = np.arange(len(df)) * 2 + 5
    if index is not None:
        df.index = index
    if meta == "none":
        return CopyNumArray(df)            # a table built without any metadata, as library users and several internal call sites do
    return CopyNumArray(df, meta or {"sample_id": "S"})


def cna_records(cna, cols=None):
    df = cna.data if hasattr(cna, "data") else cna
    cols = cols or list(df.columns)
    lists = [df[c].tolist() for c in cols]
    return [tuple(_plain(x) for x in t) for t in zip(*lists)]
