"""Check driver: shards a property's workloads over subprocesses, merges what
the monitors observed, applies quotas (inconclusive), known findings, writes
evidence and replay files, prints the verdict lines.

Property modules (vmon/props/Cnn.py) provide:
    TITLE, RULE, LEVEL (default "exploration"), ASSUMPTIONS
    setup(run)                      attach monitors, return [(label, func)] to line-trace
    WORKLOADS = {name: (count(tier) -> int, case(run, index) -> None)}
    QUOTAS = {tier: {"monitor|held" or "class:<cls>": minimum}}
    BUDGET_S = {tier: seconds}      per-shard watchdog for case generation
    finalize(run)                   optional, per shard, after the workloads (offline log checks)
"""
import importlib
import json
import os
import shutil
import subprocess
import sys
import time

from . import runtime, trace

VERIF = runtime.VERIF
PY = sys.executable


def load_prop(prop):
    return importlib.import_module(f"vmon.props.{prop}")


def _tier(args_tier):
    return os.environ.get("VERIF_TIER") or args_tier or "quick"


def _seed():
    try:
        return int(os.environ.get("VERIF_SEED", "0"))
    except ValueError:
        return 0


# ------------------------------------------------------------------ one shard

def run_shard(prop, tier, seed, shard, nshards, workdir, out, only=None):
    os.environ[runtime.GUARD] = "1"
    mod = load_prop(prop)
    budget = float(os.environ.get("VERIF_BUDGET_S") or getattr(mod, "BUDGET_S", {}).get(tier, 600))   # override: self-test of the truncation verdict only
    run = runtime.set_run(runtime.Run(prop, tier, seed, shard, nshards, workdir, deadline_s=budget))
    traced = mod.setup(run) or []
    trace.watch(traced)
    try:
        for name, wl in mod.WORKLOADS.items():
            count, case = wl[0], wl[1]
            everywhere = len(wl) > 2 and wl[2]     # run in every shard (cross-process comparisons)
            if only and name != only[0]:
                continue
            n = count(tier)
            idxs = [only[1]] if only else range(n)
            for i in idxs:
                if not only and not everywhere and not run.mine(i):
                    continue
                if run.out_of_time():
                    break
                try:
                    case(run, i)
                except runtime.MonitorError as exc:
                    run.monitor_error(f"workload:{name}", exc)
                except Exception as exc:  # generator/harness bug: never a verdict
                    run.monitor_error(f"workload:{name}", exc)
                finally:
                    run.case = None
        fin = getattr(mod, "finalize", None)
        if fin:
            try:
                with run.monitor_scope():
                    fin(run)
            except Exception as exc:
                run.monitor_error("finalize", exc)
    finally:
        res = run.result()
        res["lines"] = trace.report()
        res["lines_missing"] = trace.missing()
        with open(out, "w") as fh:
            json.dump(res, fh)
    return res


# --------------------------------------------------------------------- parent

def _spawn(prop, tier, seed, shard, nshards, workdir, out, hashseed="0", only=None):
    env = dict(os.environ)
    env[runtime.GUARD] = "1"
    env["PYTHONHASHSEED"] = str(hashseed)
    env["TMPDIR"] = workdir
    env.setdefault("OMP_NUM_THREADS", "1")
    env.setdefault("OPENBLAS_NUM_THREADS", "1")
    env.setdefault("MKL_NUM_THREADS", "1")
    cmd = [PY, "-X", "faulthandler", os.path.join(VERIF, "vcheck"), prop, "--tier", tier, "--seed", str(seed),
           "--shard", f"{shard}/{nshards}", "--workdir", workdir, "--out", out]
    if only:
        cmd += ["--only", f"{only[0]}:{only[1]}"]
    log = open(out + ".log", "w")
    return subprocess.Popen(cmd, env=env, stdout=log, stderr=subprocess.STDOUT, cwd=VERIF)


def check(prop, tier, replay=None):
    tier = _tier(tier)
    seed = _seed()
    mod = load_prop(prop)
    t0 = time.time()
    workdir = os.path.join(VERIF, ".work", f"{prop}-{tier}-{os.getpid()}")
    shutil.rmtree(workdir, ignore_errors=True)
    os.makedirs(workdir)
    only = None
    if replay:
        with open(replay) as fh:
            w = json.load(fh)
        seed, tier = w.get("seed", seed), w.get("tier", tier)
        c = w.get("case") or {}
        only = (c.get("workload"), int(c.get("index", 0)))
        nsh = 1
    else:
        nsh = getattr(mod, "SHARDS", {}).get(tier, min(16, os.cpu_count() or 4))
    budget = float(os.environ.get("VERIF_BUDGET_S") or getattr(mod, "BUDGET_S", {}).get(tier, 600))   # override: self-test of the truncation verdict only
    hashseeds = getattr(mod, "HASHSEEDS", None)
    procs = []
    for s in range(nsh):
        out = os.path.join(workdir, f"shard{s}.json")
        hs = hashseeds[s % len(hashseeds)] if hashseeds else "0"
        procs.append((s, out, _spawn(prop, tier, seed, s, nsh, workdir, out, hs, only)))
    results, dead = [], []
    limit = t0 + budget * 2 + 120  # generous wall watchdog: firing is inconclusive
    for s, out, p in procs:
        try:
            p.wait(timeout=max(1, limit - time.time()))
        except subprocess.TimeoutExpired:
            p.kill()
            dead.append((s, "watchdog"))
            continue
        if os.path.exists(out):
            with open(out) as fh:
                results.append(json.load(fh))
            if p.returncode != 0:
                dead.append((s, f"exit {p.returncode}"))
        else:
            dead.append((s, f"exit {p.returncode} without result"))
    m = runtime.merge_results(results)
    lines = {}
    for r in results:
        for k, (ex, tot) in r.get("lines", {}).items():
            a = lines.setdefault(k, [0, tot])
            a[0] = max(a[0], ex)
    pm = getattr(mod, "post_merge", None)
    if pm and not replay:
        for mech, w in pm(m, tier):
            m["viol"].setdefault(mech, w)
            m["viol_count"][mech] += 1
            m["counters"][f"{w.get('monitor', 'post-merge')}|violated"] += 1
    missing = {}
    for r in results:
        for k, d in r.get("lines_missing", {}).items():
            cur = missing.get(k)
            missing[k] = {"file": d["file"], "lines": sorted(set(d["lines"]) & set(cur["lines"]))} if cur else d
    m["lines_missing"] = {k: {"file": os.path.relpath(v["file"], "/repo") if v["file"].startswith("/repo") else os.path.basename(v["file"]), "lines": v["lines"][:60]}
                          for k, v in sorted(missing.items()) if v["lines"]}
    findings = runtime.load_known_findings()
    viols, known = [], []
    for mech, w in sorted(m["viol"].items()):
        kf = runtime.match_known(prop, mech, findings)
        (known if kf else viols).append((mech, w, kf))

    # quotas -> inconclusive
    unmet = []
    waived, required = set(), {}
    for extra_key, keys in getattr(mod, "QUOTA_WAIVERS", {}).items():
        # a hooked internal is gone (refactoring): the quotas of that monitor are waived, the API-boundary quotas named by the
        # property module still have to be met
        if m["extra"].get(extra_key, 0) > 0:
            waived.update(keys["waive"])
            required.update(keys.get("require", {}))
            print(f"NOTE property={prop} {extra_key}: deciding at the API boundary only ({len(keys['waive'])} quota(s) waived, {len(keys.get('require', {}))} required instead)")
    # monitors on internal helpers: when the tree no longer routes the work through such a helper (it is gone, or simply not
    # called any more) its quotas say nothing about the property; they are waived and the API-boundary monitors decide alone
    for name, tied in getattr(mod, "INTERNAL_MONITORS", {}).items():
        if m["counters"].get(f"{name}|calls", 0) == 0 or m["extra"].get(f"monitor-unavailable:{name}", 0) > 0:
            waived.update([f"{name}|held"] + list(tied))
            print(f"NOTE property={prop} internal helper behind monitor {name} is not on the path of this tree: its quotas are waived")
    if not replay:
        quotas = dict(getattr(mod, "QUOTAS", {}).get(tier, {}))
        quotas.update(required)
        for key, need in quotas.items():
            if key in waived:
                continue
            if key.startswith("class:"):
                got = m["classes"].get(key[6:], 0)
            elif key.startswith("extra:"):
                got = m["extra"].get(key[6:], 0)
            else:
                got = m["counters"].get(key, 0)
            if got < need:
                unmet.append(f"{key}: {got} < {need}")
    inconclusive = []
    if dead:
        inconclusive.append("shards lost: " + ", ".join(f"{s} ({why})" for s, why in dead))
    if m["errors"]:
        inconclusive.append(f"{len(m['errors'])} monitor/harness error(s): " + m["errors"][0]["traceback"].strip().splitlines()[-1])
    if unmet:
        inconclusive.append("quota unmet: " + "; ".join(unmet))
    if m["truncated"] and not replay:
        # a shard ran into its wall-clock budget (loaded machine): the cases it skipped were not observed, so "held" would
        # claim more than was seen -- inconclusive, never a violation and never a pass
        inconclusive.append(f"workload truncated by the wall-clock budget ({budget} s per shard): not every planned case was run")

    # replay files
    rdir = os.path.join(os.environ.get("VERIF_EVIDENCE_DIR") if os.environ.get("VERIF_REPO") and os.environ.get("VERIF_EVIDENCE_DIR") else os.path.join(VERIF, "replays"), prop)
    replay_paths = {}
    if viols and not replay:
        os.makedirs(rdir, exist_ok=True)
        for mech, w, _ in viols:
            fn = os.path.join(rdir, "".join(ch if ch.isalnum() or ch in "-_." else "_" for ch in mech)[:80] + ".json")
            with open(fn, "w") as fh:
                json.dump(w, fh, indent=1)
            replay_paths[mech] = os.path.relpath(fn, VERIF)

    wall = time.time() - t0
    if not replay:
        write_evidence(mod, prop, tier, seed, m, lines, viols, known, inconclusive, wall, nsh)

    # report
    mt = runtime.monitor_table(m["counters"])
    print(f"[{prop}] tier={tier} seed={seed} shards={nsh} cases={m['evaluations']} distinct={len(m['distinct'])} wall={wall:.1f}s")
    for mon, d in mt.items():
        print(f"  monitor {mon}: " + " ".join(f"{k}={v}" for k, v in sorted(d.items())))
    seen_kf = set()
    for mech, w, kf in known:
        seen_kf.add(kf.get("id"))
        print(f"KNOWN-FINDING: property={prop} {kf.get('id', '')} {kf.get('what', mech)} (observed {m['viol_count'][mech]}x in this run)")
    for kf in findings:
        if kf.get("status") == "open" and kf.get("property") == prop and kf.get("id") not in seen_kf:
            print(f"KNOWN-FINDING: property={prop} {kf.get('id', '')} {kf.get('what', '')} (listed; not met by this run's inputs)")
    for e in m["errors"][:2]:
        print("MONITOR-ERROR:\n" + e["traceback"])
    if os.environ.get("VERIF_KEEP_WORK") != "1":
        shutil.rmtree(workdir, ignore_errors=True)
    if viols:
        for mech, w, _ in viols:
            path = replay_paths.get(mech, replay or "-")
            print(f"  violated [{mech}] x{m['viol_count'][mech]}: {str(w['detail'])[:400]}")
            print(f"VIOLATION property={prop} replay={path}")
        return 1
    if inconclusive:
        for why in inconclusive:
            print(f"INCONCLUSIVE property={prop} {why}")
        return 2
    print(f"HELD property={prop} on everything observed")
    return 0


def write_evidence(mod, prop, tier, seed, m, lines, viols, known, inconclusive, wall, nsh):
    ev = {
        "property_id": prop,
        "tier": tier,
        "seed": seed,
        "level": getattr(mod, "LEVEL", "exploration"),
        "coverage": {
            "evaluations": int(m["evaluations"]),
            "distinct_nontrivial": len(m["distinct"]),
            "rule": mod.RULE,
            "samples": m["samples"][:6],
            "exhaustive": False,
            "monitor_events": runtime.monitor_table(m["counters"]),
            "classes": dict(sorted(m["classes"].items())),
            "observations": dict(sorted(m["extra"].items())),
            "observed_sets": {k: sorted(v)[:40] for k, v in m["sets"].items()},
            "anchor_line_coverage": lines,
            "anchor_lines_not_executed": m.get("lines_missing", {}),
            "shards": nsh,
            "truncated_by_budget": bool(m["truncated"]),
            "inconclusive": inconclusive,
            "known_findings": [{"mech": mech, "id": kf.get("id"), "count": m["viol_count"][mech]} for mech, _w, kf in known],
            "violation_mechanisms": [mech for mech, _w, _ in viols],
        },
        "assumptions": list(getattr(mod, "ASSUMPTIONS", [])),
        "wall_s": round(wall, 2),
        "violations": len(viols),
    }
    extra = getattr(mod, "evidence_extra", None)
    if extra:
        ev["coverage"].update(extra(m, tier))
    evdir = os.environ.get("VERIF_EVIDENCE_DIR") if os.environ.get("VERIF_REPO") else None
    evdir = evdir or os.path.join(VERIF, "evidence")   # a scratch-copy run never touches /verif/evidence
    os.makedirs(evdir, exist_ok=True)
    with open(os.path.join(evdir, f"{prop}.json"), "w") as fh:
        json.dump(ev, fh, indent=1, default=repr)
