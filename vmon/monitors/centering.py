"""Monitors for C15: CopyNumArray.center_all (uniform shift; amount equals the
two-level estimate on the pre-call values), guess_xx / compare_sex_chromosomes
/ commands.do_sex (against the generated sample's sex), shift_xx, expect_flat_log2.
"""
import math
import re

import numpy as np

from ..models import robust as R
from ..models import copynumber as CN

LOW = -15.0


def _arg(args, kwargs, pos, name, default=None):
    if len(args) > pos:
        return args[pos]
    return kwargs.get(name, default)


def _snap(cna, par=None):
    d = cna.data
    return {"chrom": d["chromosome"].astype(str).tolist(), "start": d["start"].tolist(), "end": d["end"].tolist(),
            "log2": d["log2"].to_numpy(float).copy(), "depth": d["depth"].to_numpy(float).copy() if "depth" in d else None}


def _mode(a):
    from scipy import stats
    s = np.sort(a)
    if s[0] == s[-1]:
        return s[0], True
    y = stats.gaussian_kde(s).evaluate(s)
    peak = s[y.argmax()]
    others = y[s != peak]
    unique = not len(others) or (y.max() - others.max()) > 1e-6 * y.max()
    return peak, unique


def _estimate(name, vals):
    """(value, reliable)"""
    vals = np.asarray(vals, float)
    vals = vals[~np.isnan(vals)]
    if name == "mean":
        return float(vals.sum() / len(vals)), True
    if name == "median":
        return float(R.median(vals)), True
    if name == "biweight":
        if len(vals) == 1:
            return float(vals[0]), True
        v, ok = R.biweight_location(vals)
        return float(v), ok
    if name == "mode":
        if len(vals) == 1:
            return float(vals[0]), True
        v, uniq = _mode(vals)
        return float(v), uniq
    raise KeyError(name)


def pre_center(run, args, kwargs):
    cna = args[0]
    est = _arg(args, kwargs, 1, "estimator", "median")
    import pandas as pd
    if est is pd.Series.median:
        est = "median"
    elif est is pd.Series.mean:
        est = "mean"
    s = _snap(cna)
    s.update(est=est, by_chrom=bool(_arg(args, kwargs, 2, "by_chrom", True)), skip_low=bool(_arg(args, kwargs, 3, "skip_low", False)),
             par=_arg(args, kwargs, 5, "diploid_parx_genome"), x_label=cna.chr_x_label if len(cna) else None)
    return s


def post_center(run, snap, res, args, kwargs):
    mon = "CopyNumArray.center_all"
    cna = args[0]
    before = snap["log2"]
    if not len(before):
        return run.ood(mon, "empty")
    after = cna.data["log2"].to_numpy(float)
    if len(after) != len(before) or np.isnan(before).any():
        return run.ood(mon, "nan-or-resized")
    delta = after - before
    wit = {"estimator": snap["est"] if isinstance(snap["est"], str) else "callable", "by_chrom": snap["by_chrom"], "skip_low": snap["skip_low"], "par": snap["par"],
           "chromosomes": sorted(set(snap["chrom"]))[:30], "log2_before": before[:60].tolist(), "log2_after": after[:60].tolist()}
    scale = max(1.0, np.abs(before).max())
    if delta.max() - delta.min() > 1e-9 * scale:
        return run.violate(mon, "center-not-uniform", f"differences between bins changed: shift ranges over [{delta.min()}, {delta.max()}]", wit)
    shift = float(np.median(delta))
    if not isinstance(snap["est"], str) or snap["est"] not in ("mean", "median", "mode", "biweight"):
        return run.held(mon + "[uniform]", "center:callable")
    # selection of the bins that define the centre
    chrom = snap["chrom"]
    is_auto = np.array([bool(re.match(r"(chr)?\d+$", c)) for c in chrom])
    low = before < LOW
    if snap["depth"] is not None:
        low |= snap["depth"] == 0
    usable = ~low if snap["skip_low"] else np.ones(len(before), bool)
    # autosome-like names are looked for among the usable bins
    if (is_auto & usable).any():
        sel = is_auto.copy()
        if snap["par"]:
            xl = snap["x_label"]
            for i, c in enumerate(chrom):
                if c == xl and CN.region_class(c, snap["start"][i], snap["end"][i], snap["par"], xl, None) == "parx":
                    sel[i] = True
        sel &= usable
    else:
        sel = usable.copy()
    if not sel.any():
        if abs(shift) > 1e-12:
            return run.violate(mon, "center-shift-without-bins", f"no bin selected for the estimate but log2 moved by {shift}", wit)
        return run.held(mon, "center:nothing-selected")
    reliable = True
    if snap["by_chrom"]:
        per = []
        order = []
        for c in chrom:
            if c not in order:
                order.append(c)
        for c in order:
            v = before[sel & (np.array(chrom) == c)]
            if len(v):
                e, ok = _estimate(snap["est"], v)
                per.append(e)
                reliable &= ok
        centre, ok = _estimate(snap["est"], per)
        reliable &= ok
    else:
        centre, reliable = _estimate(snap["est"], before[sel])
    if not reliable:
        run.extra[f"center-estimate-ill-conditioned:{snap['est']}"] += 1
        return run.held(mon + "[uniform]", f"center:{snap['est']}:uniform-only")
    tol = {"mean": 1e-9, "median": 1e-9, "mode": 1e-9, "biweight": 1e-6}[snap["est"]] * scale
    if abs(shift + centre) > tol:
        cls = "by_chrom" if snap["by_chrom"] else "pooled"
        return run.violate(mon, f"center-amount-{snap['est']}-{cls}" + ("-skip_low" if snap["skip_low"] else "") + ("-par" if snap["par"] else ""),
                           f"log2 moved by {shift}; minus the {snap['est']} of the {'per-chromosome ' if snap['by_chrom'] else ''}autosomal values is {-centre}", wit)
    run.held(mon, f"center:{snap['est']}:{'by_chrom' if snap['by_chrom'] else 'pooled'}" + (":skip_low" if snap["skip_low"] else "") + (":par" if snap["par"] else "")
             + (":noauto" if not (is_auto & usable).any() else ""))


def exc_center(run, snap, exc, args, kwargs):
    mon = "CopyNumArray.center_all"
    if snap is None or not len(snap["log2"]) or np.isnan(snap["log2"]).any():
        return
    if isinstance(exc, ValueError) and "Estimator must be" in str(exc):
        return run.ood(mon, "unknown-estimator")
    if not isinstance(snap["est"], str):
        return run.ood(mon, "callable-estimator")
    run.violate(mon, f"center-raises-{type(exc).__name__}-{snap['est']}", f"raised {exc!r}",
                {"estimator": snap["est"], "log2": snap["log2"][:60].tolist(), "chromosomes": sorted(set(snap["chrom"]))[:30]})


# ------------------------------------------------------------------- sex

def _truth(run):
    c = run.case or {}
    return c.get("sex")       # {"female": bool, "male_ref": bool}


def post_guess_xx(run, snap, res, args, kwargs):
    mon = "CopyNumArray.guess_xx"
    t = _truth(run)
    if t is None:
        return run.ood(mon, "no-ground-truth")
    male_ref = bool(_arg(args, kwargs, 1, "is_haploid_x_reference", False))
    if male_ref != t["male_ref"]:
        return run.ood(mon, "asked-under-another-reference-sex")
    if res is None:
        return run.violate(mon, "guess_xx-none", "no answer for a sample with chrX bins", dict(t))
    if bool(res) != t["female"]:
        return run.violate(mon, "guess_xx-wrong-sex" + ("-noY" if not t.get("has_y") else ""), f"sample generated as {'female' if t['female'] else 'male'} (male_ref={male_ref}) called {'female' if res else 'male'}", dict(t))
    run.held(mon, f"sex:{'F' if t['female'] else 'M'}:{'maleref' if male_ref else 'femaleref'}:{'Y' if t.get('has_y') else 'noY'}:{'w' if t.get('weights') else 'now'}")


def post_compare(run, snap, res, args, kwargs):
    mon = "CopyNumArray.compare_sex_chromosomes"
    t = _truth(run)
    if t is None:
        return run.ood(mon, "no-ground-truth")
    male_ref = bool(_arg(args, kwargs, 1, "is_haploid_x_reference", False))
    if male_ref != t["male_ref"]:
        return run.ood(mon, "asked-under-another-reference-sex")
    is_xy, _stats = res
    if is_xy is None or bool(is_xy) == t["female"]:
        return run.violate(mon, "compare-sex-wrong", f"sample generated as {'female' if t['female'] else 'male'}; is_xy={is_xy}", dict(t))
    run.held(mon)


def post_do_sex(run, snap, res, args, kwargs):
    mon = "commands.do_sex"
    t = _truth(run)
    if t is None:
        return run.ood(mon, "no-ground-truth")
    if bool(args[1]) != t["male_ref"]:
        return run.ood(mon, "asked-under-another-reference-sex")
    sexes = res["sex"].tolist()
    want = "Female" if t["female"] else "Male"
    if sexes != [want] * len(sexes) or not sexes:
        return run.violate(mon, "sex-report-wrong", f"sex table says {sexes}, sample generated as {want}", dict(t))
    run.held(mon)


def pre_shift_xx(run, args, kwargs):
    cna = args[0]
    s = _snap(cna)
    s["x_label"] = cna.chr_x_label if len(cna) else None
    return s


def post_shift_xx(run, snap, res, args, kwargs):
    mon = "CopyNumArray.shift_xx"
    cna = args[0]
    male_ref = bool(_arg(args, kwargs, 1, "is_haploid_x_reference", False))
    is_xx = _arg(args, kwargs, 2, "is_xx")
    if is_xx is None:
        t = _truth(run)
        if t is None or t["male_ref"] != male_ref:
            return run.ood(mon, "sex-inferred-without-ground-truth")
        is_xx = t["female"]
    before = snap["log2"]
    if not len(before):
        return run.ood(mon, "empty")
    d = -1.0 if (is_xx and male_ref) else 1.0 if (not is_xx and not male_ref) else 0.0
    isx = np.array([c == snap["x_label"] for c in snap["chrom"]])
    want = before + d * isx
    got = res.data["log2"].to_numpy(float)
    wit = {"male_ref": male_ref, "is_xx": bool(is_xx), "x_bins": int(isx.sum())}
    if len(got) != len(want) or np.nanmax(np.abs(got - want)) > 1e-12:
        return run.violate(mon, "shift_xx-amount", f"chrX must move by {d} and nothing else may move", wit)
    if not np.array_equal(cna.data["log2"].to_numpy(float), before, equal_nan=True):
        return run.violate(mon, "shift_xx-mutated-input", "the array passed in was modified", wit)
    t = _truth(run)
    if t is not None and t["male_ref"] == male_ref and bool(is_xx) == t["female"] and isx.sum() >= 40:
        auto = np.array([bool(re.match(r"(chr)?\d+$", c)) for c in snap["chrom"]])
        if auto.any():
            gap = abs(np.median(got[isx]) - np.median(got[auto]))
            if gap > 0.25:
                return run.violate(mon, "shift_xx-level", f"after shift_xx chrX median is {gap:.3f} away from the autosomal median", wit)
    run.held(mon, f"shift_xx:{d:+.0f}")


def pre_flat(run, args, kwargs):
    cna = args[0]
    return {"chrom": cna.data["chromosome"].astype(str).tolist(), "x": cna.chr_x_label if len(cna) else None, "y": cna.chr_y_label if len(cna) else None}


def post_flat(run, snap, res, args, kwargs):
    mon = "CopyNumArray.expect_flat_log2"
    male_ref = _arg(args, kwargs, 1, "is_haploid_x_reference")
    par = _arg(args, kwargs, 2, "diploid_parx_genome")
    if male_ref is None:
        return run.ood(mon, "reference-sex-inferred")
    if par is not None:
        return run.ood(mon, "par-genome")
    want = np.array([-1.0 if (c == snap["y"] or (c == snap["x"] and male_ref)) else 0.0 for c in snap["chrom"]])
    got = np.asarray(res, float)
    if got.shape != want.shape or (got != want).any():
        i = int(np.argmax(got != want)) if got.shape == want.shape else 0
        return run.violate(mon, "expect-flat-" + ("x" if snap["chrom"][i] == snap["x"] else "y" if snap["chrom"][i] == snap["y"] else "autosome"),
                           f"{snap['chrom'][i]}: {got[i] if got.shape == want.shape else got.shape}, expected {want[i]} (male_ref={bool(male_ref)})", {"male_ref": bool(male_ref)})
    run.held(mon, f"flat:{'maleref' if male_ref else 'femaleref'}")


def attach_all(run, rt):
    from cnvlib.cnary import CopyNumArray as CNA
    import cnvlib.commands as K
    traced = [("cnary.center_all", rt.opt(CNA, "center_all")), ("cnary.autosomes", rt.opt(CNA, "autosomes")), ("cnary.compare_sex_chromosomes", rt.opt(CNA, "compare_sex_chromosomes")),
              ("cnary.guess_xx", rt.opt(CNA, "guess_xx")), ("cnary.shift_xx", rt.opt(CNA, "shift_xx")), ("cnary.expect_flat_log2", rt.opt(CNA, "expect_flat_log2")),
              ("cnary.drop_low_coverage", rt.opt(CNA, "drop_low_coverage")), ("commands.do_sex", rt.opt(K, "do_sex"))]
    rt.attach(CNA, "center_all", name="CopyNumArray.center_all", pre=pre_center, post=post_center, on_exc=exc_center)
    rt.attach(CNA, "guess_xx", name="CopyNumArray.guess_xx", post=post_guess_xx)
    rt.attach(CNA, "compare_sex_chromosomes", name="CopyNumArray.compare_sex_chromosomes", post=post_compare)
    rt.attach(CNA, "shift_xx", name="CopyNumArray.shift_xx", pre=pre_shift_xx, post=post_shift_xx)
    rt.attach(CNA, "expect_flat_log2", name="CopyNumArray.expect_flat_log2", pre=pre_flat, post=post_flat)
    rt.attach(K, "do_sex", name="commands.do_sex", post=post_do_sex)
    return traced
