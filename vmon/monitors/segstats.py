"""Monitors for C17: segmetrics.do_segmetrics, bintest.do_bintest,
bintest.p_adjust_bh, CopyNumArray.residuals.  Statistics are recomputed from
first principles on exactly the bins overlapping each segment (brute-force
overlap over plain tuples).
"""
import math

import numpy as np
from scipy import stats as sps

from ..gen import cna_records
from ..models import robust as R

LOW = -15.0


def _arg(args, kwargs, pos, name, default=None):
    if len(args) > pos:
        return args[pos]
    return kwargs.get(name, default)


def _recs(cna, cols):
    cols = [c for c in cols if c in cna.data.columns]
    return [dict(zip(cols, t)) for t in cna_records(cna, cols)]


def _isnan(x):
    return x is None or (isinstance(x, float) and math.isnan(x))


def _close(a, b, rel=1e-9, abs_=1e-12):
    if _isnan(a) or _isnan(b):
        return _isnan(a) and _isnan(b)
    return abs(a - b) <= abs_ + rel * max(abs(a), abs(b))


def pre_segmetrics(run, args, kwargs):
    cna, seg = args[0], args[1]
    return {
        "bins": _recs(cna, ["chromosome", "start", "end", "log2", "weight", "depth"]), "has_depth": "depth" in cna, "has_weight": "weight" in cna,
        "segs": _recs(seg, list(seg.data.columns)), "seg_cols": list(seg.data.columns), "seg_fp": None,
        "location": tuple(_arg(args, kwargs, 2, "location_stats", ()) or ()), "spread": tuple(_arg(args, kwargs, 3, "spread_stats", ()) or ()),
        "interval": tuple(_arg(args, kwargs, 4, "interval_stats", ()) or ()), "alpha": _arg(args, kwargs, 5, "alpha", 0.05),
        "bootstraps": _arg(args, kwargs, 6, "bootstraps", 100), "smoothed": bool(_arg(args, kwargs, 7, "smoothed", False)),
        "skip_low": bool(_arg(args, kwargs, 8, "skip_low", False)),
    }


def _defs(vals, seglog2):
    """name -> set of admissible values for the bins `vals` of one segment."""
    a = np.asarray(vals, dtype=float)
    n = len(a)
    out = {}
    nan = float("nan")
    if n == 0:
        for k in ("mean", "median", "p_ttest", "stdev", "mad", "mse", "iqr", "bivar", "sem"):
            out[k] = [nan]
        return out
    d = a - seglog2
    out["mean"] = [float(a.sum() / n)]
    out["median"] = [float(R.median(a))]
    if n >= 2:
        m = a.sum() / n
        s1 = math.sqrt(((a - m) ** 2).sum() / (n - 1))
        if s1 > 0:
            t = m / (s1 / math.sqrt(n))
            out["p_ttest"] = [float(2 * sps.t.sf(abs(t), n - 1))]
        else:
            out["p_ttest"] = None   # degenerate: not judged
    else:
        out["p_ttest"] = [nan]
    dm = d.sum() / n
    out["stdev"] = [float(math.sqrt(((d - dm) ** 2).sum() / n))]
    out["mse"] = [float((d ** 2).sum() / n)]
    if n == 1:
        # definition value, or the library's documented trivial-length shortcut (0)
        out["mse"].append(0.0)
        out["mad"] = [0.0]
        out["iqr"] = [0.0]
        out["bivar"] = [0.0, nan]
        out["sem"] = [nan, 0.0]
    else:
        out["mad"] = [float(R.mad(d))]
        out["iqr"] = [float(R.iqr(d))]
        loc, ok1 = R.biweight_location(d)
        vals_, ok2 = R.biweight_midvariance_variants(d, loc)
        out["bivar"] = vals_ if (ok1 and ok2 and vals_) else None
        out["sem"] = [float(math.sqrt(((d - dm) ** 2).sum() / (n - 1)) / math.sqrt(n))]
    return out


def post_segmetrics(run, snap, res, args, kwargs):
    mon = "segmetrics.do_segmetrics"
    bins, segs = snap["bins"], snap["segs"]
    if not segs:
        return run.ood(mon, "no-segments")
    if not snap["has_weight"]:
        return run.ood(mon, "no-weight-column")
    if any(_isnan(b["log2"]) for b in bins) or any(_isnan(s.get("log2")) for s in segs):
        return run.ood(mon, "nan-log2")
    if not 0 < snap["alpha"] < 1:
        return run.ood(mon, "alpha-out-of-range")
    use = [b for b in bins if not (snap["skip_low"] and (b["log2"] < LOW or (snap["has_depth"] and b["depth"] == 0)))]
    out = res.data
    wit = {"params": {k: snap[k] for k in ("location", "spread", "interval", "alpha", "bootstraps", "smoothed", "skip_low")},
           "segments": [(s["chromosome"], s["start"], s["end"], s["log2"]) for s in segs][:30]}
    if len(out) != len(segs):
        return run.violate(mon, "segment-count", f"{len(segs)} segments in, {len(out)} out", wit)
    # input columns unchanged
    for c in snap["seg_cols"]:
        before = [s[c] for s in segs]
        after = [t[0] for t in cna_records(res, [c])]
        for x, y in zip(before, after):
            if not (x == y or (_isnan(x) and _isnan(y))):
                return run.violate(mon, "input-column-changed", f"segment column {c!r}: {x!r} -> {y!r}", wit)
    sizes = set()
    for i, s in enumerate(segs):
        vals = [b["log2"] for b in use if b["chromosome"] == s["chromosome"] and b["end"] > s["start"] and b["start"] < s["end"]]
        wts = [b["weight"] for b in use if b["chromosome"] == s["chromosome"] and b["end"] > s["start"] and b["start"] < s["end"]]
        sizes.add(min(len(vals), 3))
        want = _defs(vals, s["log2"])
        w2 = dict(wit, segment=(s["chromosome"], s["start"], s["end"], s["log2"]), bins_log2=vals[:300])
        for name in snap["location"] + snap["spread"]:
            if name == "mode" or want.get(name) is None:
                continue
            got = float(out[name].iat[i])
            tol = 1e-6 if name in ("bivar", "p_ttest") else 1e-9
            if not any(_close(got, x, tol, 1e-12) for x in want[name]):
                kind = "n0" if not vals else "n1" if len(vals) == 1 else "n"
                return run.violate(mon, f"stat-{name}-{kind}", f"segment {i} ({len(vals)} bins): {name} = {got}, definition gives {want[name]}", w2)
        if "pi" in snap["interval"]:
            lo, hi = float(out["pi_lo"].iat[i]), float(out["pi_hi"].iat[i])
            if not vals:
                if not (_isnan(lo) and _isnan(hi)):
                    return run.violate(mon, "pi-empty", f"segment {i} has no bins but pi = ({lo}, {hi})", w2)
            else:
                a = snap["alpha"]
                wl, wh = R.percentile_linear(vals, 100 * a / 2), R.percentile_linear(vals, 100 * (1 - a / 2))
                if not (_close(lo, wl, 1e-9) and _close(hi, wh, 1e-9)):
                    return run.violate(mon, "pi-percentiles", f"segment {i}: pi = ({lo}, {hi}), alpha/2 and 1-alpha/2 percentiles = ({wl}, {wh})", w2)
                med = R.median(vals)
                if lo > med + 1e-12 or hi < med - 1e-12:
                    return run.violate(mon, "pi-order", f"segment {i}: pi_lo {lo} <= median {med} <= pi_hi {hi} fails", w2)
        if "ci" in snap["interval"]:
            lo, hi = float(out["ci_lo"].iat[i]), float(out["ci_hi"].iat[i])
            if not vals:
                if not (_isnan(lo) and _isnan(hi)):
                    return run.violate(mon, "ci-empty", f"segment {i} has no bins but ci = ({lo}, {hi})", w2)
            else:
                if any(w <= 0 for w in wts):
                    continue
                if lo > hi:
                    return run.violate(mon, "ci-order", f"segment {i}: ci_lo {lo} > ci_hi {hi}", w2)
                if not snap["smoothed"] and (lo < min(vals) - 1e-9 or hi > max(vals) + 1e-9):
                    return run.violate(mon, "ci-range", f"segment {i}: ci ({lo}, {hi}) outside bins' range ({min(vals)}, {max(vals)})", w2)
    run.sets["segment_sizes"].update(f"{k}{'+' if k == 3 else ''}-bin" for k in sizes)
    # reproducible bootstrap: re-run the real function under another RNG state
    if "ci" in snap["interval"]:
        orig = getattr(run, "_orig_segmetrics", None)
        if orig is not None:
            st = np.random.get_state()
            np.random.seed((run.seed * 7919 + len(bins) * 31 + len(segs)) % (2 ** 31))
            np.random.random(17)
            try:
                res2 = orig(*args, **kwargs)
            finally:
                np.random.set_state(st)
            for c in ("ci_lo", "ci_hi"):
                a, b = out[c].to_numpy(float), res2.data[c].to_numpy(float)
                if not (np.isclose(a, b, rtol=0, atol=0, equal_nan=True)).all():
                    return run.violate(mon, "ci-not-reproducible", f"{c} differs between two runs under different RNG states: {a[:5]} vs {b[:5]}", wit)
            run.held("segmetrics.do_segmetrics[ci-repro]")
    run.held(mon, "segmetrics:" + "+".join(sorted(set(snap["location"] + snap["spread"] + snap["interval"]))[:4]) + (":skip_low" if snap["skip_low"] else ""))


def exc_segmetrics(run, snap, exc, args, kwargs):
    mon = "segmetrics.do_segmetrics"
    if snap is None or not snap["segs"] or not snap["has_weight"] or not 0 < snap["alpha"] < 1:
        return
    if any(_isnan(b["log2"]) or _isnan(b.get("weight")) or b["weight"] <= 0 for b in snap["bins"]):
        return run.ood(mon, "nan-or-nonpositive-weight")
    run.violate(mon, f"segmetrics-raises-{type(exc).__name__}", f"raised {exc!r}", {"params": {k: snap[k] for k in ("location", "spread", "interval", "alpha", "bootstraps", "smoothed", "skip_low")}})


# ----------------------------------------------------------------------- BH

def bh_definition(p):
    """q_i = min(1, min over {j: p_j >= p_i} of n*p_j / rank_j) -- the O(n^2)
    definition, evaluated by broadcasting (no step-up recursion)."""
    p = np.asarray(p, dtype=float)
    n = len(p)
    order = np.argsort(p, kind="stable")
    rank = np.empty(n)
    rank[order] = np.arange(1, n + 1)
    vals = n * p / rank
    out = np.empty(n)
    for lo in range(0, n, 512):
        blk = p[lo:lo + 512]
        m = np.where(p[None, :] >= blk[:, None], vals[None, :], np.inf)
        out[lo:lo + 512] = m.min(axis=1)
    return np.minimum(1.0, out).tolist()


def post_bh(run, snap, res, args, kwargs):
    mon = "bintest.p_adjust_bh"
    p = snap
    if len(p) == 0:
        return run.ood(mon, "empty")
    if np.isnan(p).any() or (p < 0).any() or (p > 1).any():
        return run.ood(mon, "p-outside-[0,1]")
    want = np.array(bh_definition(p))
    got = np.asarray(res, float)
    bad = np.abs(got - want) > 1e-12 + 1e-9 * want
    if got.shape != want.shape or bad.any():
        i = int(np.argmax(bad)) if got.shape == want.shape else 0
        return run.violate(mon, "bh-adjustment", f"p[{i}]={p[i]}: adjusted {got[i] if got.shape == want.shape else got.shape} != BH definition {want[i]}", {"p": p.tolist()[:200]})
    run.held(mon, "bh:" + ("ties" if len(np.unique(p)) < len(p) else "distinct") + (":0or1" if ((p == 0) | (p == 1)).any() else ""))


def pre_bh(run, args, kwargs):
    return np.asarray(args[0], dtype=float).copy()


# ------------------------------------------------------------------- bintest

def pre_bintest(run, args, kwargs):
    cna = args[0]
    seg = _arg(args, kwargs, 1, "segments")
    return {"bins": _recs(cna, ["chromosome", "start", "end", "gene", "log2", "weight"]), "has_weight": "weight" in cna,
            "segs": None if seg is None or not len(seg) else _recs(seg, ["chromosome", "start", "end", "log2"]),
            "alpha": _arg(args, kwargs, 2, "alpha", 0.005), "target_only": bool(_arg(args, kwargs, 3, "target_only", False))}


def post_bintest(run, snap, res, args, kwargs):
    mon = "bintest.do_bintest"
    bins, segs = snap["bins"], snap["segs"]
    if segs is None:
        return run.ood(mon, "no-segments")
    if not bins or not snap["has_weight"]:
        return run.ood(mon, "no-bins-or-weights")
    if any(_isnan(b["log2"]) or _isnan(b["weight"]) or not (0 < b["weight"] <= 1) for b in bins):
        return run.ood(mon, "weight-not-in-(0,1]")
    keys = [(b["chromosome"], b["start"], b["end"]) for b in bins]
    if len(set(keys)) != len(keys):
        return run.ood(mon, "duplicate-bins")
    # every bin in exactly one segment (wholly inside); otherwise the statement has no 'segment mean' for it
    segmean = []
    for b in bins:
        hits = [s for s in segs if s["chromosome"] == b["chromosome"] and b["start"] >= s["start"] and b["end"] <= s["end"]]
        if len(hits) != 1:
            return run.ood(mon, "bin-not-in-exactly-one-segment")
        segmean.append(hits[0]["log2"])
    anti = [b["gene"] in ("Antitarget", "Background") for b in bins]
    # weight exactly 1: the deviate is +-infinity (p = 0) for any non-zero residual, and 0/0 -- no defined p -- for a residual of exactly 0
    # (the limit of the formula as the weight approaches 1 is p = 1 for a residual of exactly 0: the bin does not deviate at all)
    w1 = sum(b["weight"] == 1 for b in bins)
    if any(b["weight"] == 1 and b["log2"] == segmean[i] for i, b in enumerate(bins)):
        run.extra["bintest:weight-1-bin-exactly-at-its-segment-level"] += 1

    def pval(i):
        if bins[i]["weight"] == 1:
            return 1.0 if bins[i]["log2"] == segmean[i] else 0.0
        return 2.0 * sps.norm.cdf(-abs((bins[i]["log2"] - segmean[i]) / math.sqrt(1 - bins[i]["weight"])))

    def expected(first_filter):
        idx = [i for i in range(len(bins)) if not (snap["target_only"] and first_filter and anti[i])]
        p = [pval(i) for i in idx]
        q = bh_definition(p) if len(p) <= 6000 else None
        if q is None:
            return None
        return {keys[i]: q[k] for k, i in enumerate(idx) if q[k] < snap["alpha"] and not (snap["target_only"] and anti[i])}
    wants = [expected(True)] + ([expected(False)] if snap["target_only"] else [])
    if wants[0] is None:
        return run.ood(mon, "too-many-bins-for-the-quadratic-oracle")
    got = {(r["chromosome"], r["start"], r["end"]): r["p_bintest"] for r in _recs(res, ["chromosome", "start", "end", "p_bintest"])}
    wit = {"alpha": snap["alpha"], "target_only": snap["target_only"], "bins": [(b["chromosome"], b["start"], b["end"], b["gene"], b["log2"], b["weight"]) for b in bins][:120],
           "segments": [(s["chromosome"], s["start"], s["end"], s["log2"]) for s in segs][:30], "returned": sorted(got)[:40]}
    # near-threshold ties: a q within rounding of alpha may fall either side
    for want in wants:
        amb = {k for k, q in want.items() if abs(q - snap["alpha"]) <= 1e-12}
        if set(got) - amb == set(want) - amb and all(abs(got[k] - want[k]) <= 1e-12 + 1e-9 * want[k] for k in got if k in want):
            return run.held(mon, "bintest:" + ("target_only" if snap["target_only"] else "all") + (":hits" if want else ":nohits") + (":weight-1" if w1 else ""))
    want = wants[0]
    if set(got) != set(want):
        mech = "bintest-spurious-bin" if set(got) - set(want) else "bintest-missing-bin"
        return run.violate(mon, mech, f"returned-not-expected {sorted(set(got) - set(want))[:3]}, expected-missing {sorted(set(want) - set(got))[:3]}", wit)
    k = next(k for k in got if abs(got[k] - want[k]) > 1e-12 + 1e-9 * want[k])
    run.violate(mon, "bintest-p-value", f"bin {k}: p_bintest {got[k]} != 2*Phi(-|z|) BH-adjusted = {want[k]}", wit)


# ------------------------------------------------------------------ residuals

def pre_resid(run, args, kwargs):
    seg = _arg(args, kwargs, 1, "segments")
    if seg is None or not len(seg) or "log2" not in seg:
        return None
    return {"bins": _recs(args[0], ["chromosome", "start", "end", "log2"]), "index": args[0].data.index.tolist(),
            "segs": _recs(seg, ["chromosome", "start", "end", "log2"])}


def post_resid(run, snap, res, args, kwargs):
    mon = "CopyNumArray.residuals"
    if snap is None:
        return run.ood(mon, "no-segment-log2")
    bins, segs = snap["bins"], snap["segs"]
    if len(set(snap["index"])) != len(snap["index"]):
        return run.ood(mon, "duplicate-index")
    want = {}
    for lab, b in zip(snap["index"], bins):
        hits = [s for s in segs if s["chromosome"] == b["chromosome"] and b["start"] >= s["start"] and b["end"] <= s["end"]]
        if len(hits) > 1:
            return run.ood(mon, "overlapping-segments")
        if hits and not _isnan(b["log2"]) and not _isnan(hits[0]["log2"]):
            want[lab] = b["log2"] - hits[0]["log2"]
    got = {k: v for k, v in zip(res.index.tolist(), res.tolist()) if not _isnan(v)}
    if set(got) != set(want) or any(abs(got[k] - want[k]) > 1e-12 for k in got):
        bad = [k for k in set(got) | set(want) if k not in got or k not in want or abs(got[k] - want[k]) > 1e-12][:3]
        return run.violate(mon, "residuals", f"bins {bad}: residual != log2 - enclosing segment's log2", {"bins": bins[:60], "segments": segs[:20]})
    run.held(mon)


def attach_all(run, rt):
    import cnvlib.segmetrics as S
    import cnvlib.bintest as B
    import cnvlib.commands as K
    from cnvlib.cnary import CopyNumArray as CNA
    run._orig_segmetrics = S.do_segmetrics
    traced = [("segmetrics.do_segmetrics", rt.opt(S, "do_segmetrics")), ("segmetrics.calc_intervals", rt.opt(S, "calc_intervals")), ("segmetrics.make_pi_func", rt.opt(S, "make_pi_func")),
              ("segmetrics.confidence_interval_bootstrap", rt.opt(S, "confidence_interval_bootstrap")), ("bintest.do_bintest", rt.opt(B, "do_bintest")),
              ("bintest.z_prob", rt.opt(B, "z_prob")), ("bintest.p_adjust_bh", rt.opt(B, "p_adjust_bh")), ("cnary.residuals", rt.opt(CNA, "residuals"))]
    rt.attach(S, "do_segmetrics", name="segmetrics.do_segmetrics", pre=pre_segmetrics, post=post_segmetrics, on_exc=exc_segmetrics, also=[(K, "do_segmetrics")])
    rt.attach(B, "do_bintest", name="bintest.do_bintest", pre=pre_bintest, post=post_bintest, also=[(K, "do_bintest")])
    rt.attach(B, "p_adjust_bh", name="bintest.p_adjust_bh", pre=pre_bh, post=post_bh)
    rt.attach(CNA, "residuals", name="CopyNumArray.residuals", pre=pre_resid, post=post_resid)
    return traced
