"""Monitors on the segmentation pipeline (C03, C11).

Three layers, all on the real functions:

* recorders on haar.segment_haar / none.segment_none / hmm.segment_hmm capture
  `filtered_cn`, the bins that survived the filters -- state that is invisible
  at the API boundary;
* a per-arm monitor on segmentation._do_segmentation (it runs inside the pool
  worker for none/haar and in-process for the HMM methods) judges the tiling,
  exactly-once accounting, endpoint stretch and aggregate clauses against the
  recorded survivors and the input bins, and writes its verdict as an event to
  the per-pid log (counters of a forked worker die with it);
* a whole-call monitor on segmentation.do_segmentation collects the arm events
  of its call from every worker's log (offline check): every input bin was
  dispatched in exactly one arm, every arm result appears exactly once in the
  output, and the tiling clauses hold again on the concatenated table.

`_ds` (the pool entry point) gets a delay wrapper so that tasks complete out
of submission order; the completion orders actually observed are evidence.
"""
import json
import math
import os
import time

import numpy as np

IGNORED = ("-", ".", "CGH", "Antitarget", "Background")
PER_ARM = ("none", "haar", "cbs")
LOW_LOG2 = -15.0   # NULL_LOG2_COVERAGE - MIN_REF_COVERAGE


def _f(x):
    try:
        x = float(x)
    except (TypeError, ValueError):
        return None
    return None if x != x else x


def bins_of(cna):
    """Plain records of a bin/segment table."""
    df = cna.data
    n = len(df)
    out = {
        "chromosome": [str(c) for c in df["chromosome"].tolist()],
        "start": [int(x) for x in df["start"].tolist()],
        "end": [int(x) for x in df["end"].tolist()],
    }
    for c in ("log2", "weight", "depth", "probes"):
        if c in df.columns:
            out[c] = [_f(x) for x in df[c].tolist()]
    if "gene" in df.columns:
        out["gene"] = [str(g) for g in df["gene"].tolist()]
    out["n"] = n
    return out


def _in_domain(b):
    """Sorted, positive-length, non-overlapping bins within contiguous chromosomes."""
    seen, prev_c, prev_e = set(), None, None
    for c, s, e in zip(b["chromosome"], b["start"], b["end"]):
        if e <= s:
            return "non-positive-bin"
        if c != prev_c:
            if c in seen:
                return "chromosome-not-contiguous"
            seen.add(c)
            prev_c, prev_e = c, None
        if prev_e is not None and s < prev_e:
            return "overlapping-or-unsorted-bins"
        prev_e = e
    return None


def model_survivors(b, skip_low, min_weight):
    """Indices surviving the deterministic filters (no outlier filter)."""
    keep = []
    for i in range(b["n"]):
        w = b["weight"][i]
        lg = b["log2"][i]
        if skip_low:
            if lg is not None and lg < LOW_LOG2:
                continue
            if "depth" in b and b["depth"][i] == 0:
                continue
        if w is None:
            continue
        if (min_weight and w < min_weight) or (not min_weight and w == 0):
            continue
        keep.append(i)
    return keep


def judge(b, surv_keys, segs, method, per_arm, check_aggregates=True):
    """Judge segments `segs` (records) against input bins `b` and the set of
    surviving bin keys.  Returns (verdicts, classes): verdicts is a list of
    (mech, detail); empty means held."""
    out = []
    key_index = {(c, s, e): i for i, (c, s, e) in enumerate(zip(b["chromosome"], b["start"], b["end"]))}
    surv_idx = []
    for k in surv_keys:
        if k not in key_index:
            out.append(("survivor-not-an-input-bin", f"segmented bin {k} is not among the input bins"))
            return out
        surv_idx.append(key_index[k])
    if len(set(surv_idx)) != len(surv_idx):
        out.append(("survivor-duplicated", "a bin reached the segmenter twice"))
        return out
    surv_set = set(surv_idx)
    span = {}
    for c, s, e in zip(b["chromosome"], b["start"], b["end"]):
        a = span.setdefault(c, [s, e])
        a[0], a[1] = min(a[0], s), max(a[1], e)
    by_chrom = {}
    for j in range(segs["n"]):
        by_chrom.setdefault(segs["chromosome"][j], []).append(j)
    for c, js in by_chrom.items():
        if c not in span:
            out.append(("segment-on-foreign-chromosome", f"segment on {c}, which has no input bin"))
            return out
        prev = None
        for j in js:
            s, e = segs["start"][j], segs["end"][j]
            if e <= s:
                out.append(("segment-not-positive", f"{c}:{s}-{e}"))
            if s < span[c][0] or e > span[c][1]:
                out.append(("segment-outside-bins", f"{c}:{s}-{e} outside the span {span[c]} of the chromosome's input bins"))
            if prev is not None:
                if s < segs["start"][prev]:
                    out.append(("segments-unsorted", f"{c}:{s} after {segs['start'][prev]}"))
                elif s < segs["end"][prev]:
                    out.append(("segments-overlap", f"{c}:{s}-{e} overlaps {segs['start'][prev]}-{segs['end'][prev]}"))
            prev = j
    if out:
        return out
    # exactly-once accounting of surviving bins
    contained = [[] for _ in range(segs["n"])]   # all input bins inside each segment
    nsurv = [0] * segs["n"]
    for i in range(b["n"]):
        c, s, e = b["chromosome"][i], b["start"][i], b["end"][i]
        hits = [j for j in by_chrom.get(c, ()) if segs["start"][j] <= s and e <= segs["end"][j]]
        if i in surv_set:
            if len(hits) != 1:
                out.append(("surviving-bin-not-in-exactly-one-segment", f"bin {c}:{s}-{e} lies in {len(hits)} segments"))
                return out
            nsurv[hits[0]] += 1
        for j in hits:
            contained[j].append(i)
    for j in range(segs["n"]):
        p = segs["probes"][j] if "probes" in segs else None
        if p is None or p != nsurv[j]:
            out.append(("probes-mismatch", f"{segs['chromosome'][j]}:{segs['start'][j]}-{segs['end'][j]} probes={p} but contains {nsurv[j]} surviving bins"))
            return out
    chroms_surv = {b["chromosome"][i] for i in surv_set}
    missing = chroms_surv - set(by_chrom)
    if missing:
        out.append(("chromosome-without-segment", f"{sorted(missing)} have surviving bins but no segment"))
        return out
    # endpoint stretch (per-arm methods: this call is one arm)
    if per_arm and surv_set and segs["n"]:
        if segs["start"][0] != b["start"][0] or segs["chromosome"][0] != b["chromosome"][0]:
            out.append(("first-segment-not-at-first-bin", f"arm starts at bin {b['chromosome'][0]}:{b['start'][0]} but first segment at {segs['start'][0]}"))
        if segs["end"][-1] != b["end"][-1]:
            out.append(("last-segment-not-at-last-bin", f"arm's last bin ends at {b['end'][-1]} but last segment at {segs['end'][-1]}"))
        if out:
            return out
    if not check_aggregates:
        return out
    # aggregates over all input bins spanned
    for j in range(segs["n"]):
        idx = contained[j]
        name = f"{segs['chromosome'][j]}:{segs['start'][j]}-{segs['end'][j]}"
        if "weight" in b and "weight" in segs and all(b["weight"][i] is not None for i in idx):
            wsum = sum(b["weight"][i] for i in idx)
            got = segs["weight"][j]
            if got is None or abs(got - wsum) > 1e-9 * max(1.0, abs(wsum)):
                out.append(("weight-not-sum-of-spanned-bins", f"{name} weight={got} but spanned bins sum to {wsum}"))
                return out
            if "depth" in b and "depth" in segs and wsum > 0 and all(b["depth"][i] is not None for i in idx):
                d = sum(b["depth"][i] * b["weight"][i] for i in idx) / wsum
                gd = segs["depth"][j]
                if gd is None or abs(gd - d) > 1e-9 * max(1.0, abs(d)):
                    out.append(("depth-not-weighted-mean-of-spanned-bins", f"{name} depth={gd} but weighted mean is {d}"))
                    return out
        if "gene" in b and "gene" in segs:
            names = []
            for i in idx:
                g = b["gene"][i]
                if g not in IGNORED and g not in names:
                    names.append(g)
            want = ",".join(names) if names else "-"
            if segs["gene"][j] != want:
                out.append(("gene-list-mismatch", f"{name} gene={segs['gene'][j]!r} but spanned bins give {want!r}"))
                return out
        if (method == "none" or method.startswith("hmm")) and "log2" in segs:
            sidx = [i for i in idx if i in surv_set]
            ws = [b["weight"][i] for i in sidx]
            if sidx and all(w is not None for w in ws) and sum(ws) > 0 and all(b["log2"][i] is not None for i in sidx):
                m = sum(b["log2"][i] * w for i, w in zip(sidx, ws)) / sum(ws)
                g = segs["log2"][j]
                if g is None or abs(g - m) > 1e-9 * max(1.0, abs(m)):
                    out.append(("log2-not-weighted-mean-of-survivors", f"{name} log2={g} but weighted mean of its surviving bins is {m}"))
                    return out
    return out


# ------------------------------------------------------------------ recorders

def _pre_inner(run, args, kwargs):
    cn = args[0]
    st = getattr(run._tls, "seg_inner", None)
    if st is not None:
        df = cn.data
        st.append(list(zip((str(c) for c in df["chromosome"].tolist()), (int(x) for x in df["start"].tolist()), (int(x) for x in df["end"].tolist()))))
    return None


# --------------------------------------------------------------- arm monitor

def _arm_args(args, kwargs):
    names = ["cnarr", "method", "diploid_parx_genome", "threshold", "variants", "skip_low", "skip_outliers", "min_weight",
             "save_dataframe", "rscript_path", "smooth_cbs"]
    d = {"variants": None, "skip_low": False, "skip_outliers": 10, "min_weight": 0, "save_dataframe": False}
    d.update(dict(zip(names, args)))
    d.update(kwargs)
    return d


def pre_arm(run, args, kwargs):
    a = _arm_args(args, kwargs)
    run._tls.seg_inner = []
    run._tls.seg_extra_verdicts = []
    return {"bins": bins_of(a["cnarr"]), "method": a["method"], "skip_low": bool(a["skip_low"]),
            "skip_outliers": a["skip_outliers"], "min_weight": a["min_weight"], "variants": a["variants"] is not None,
            "has_weight": "weight" in a["cnarr"].data.columns, "t_call": time.time()}


def _emit(run, snap, verdicts, cls, ood, segs, surv_keys, exc=None):
    b = snap["bins"]
    ev = {
        "ev": "arm", "call": getattr(run._tls, "seg_call", None), "method": snap["method"],
        "key": [b["chromosome"][0] if b["n"] else None, b["start"][0] if b["n"] else None, b["end"][-1] if b["n"] else None, b["n"]],
        "bins": list(zip(b["chromosome"], b["start"], b["end"])),
        "surv": surv_keys,
        "segs": list(zip(segs["chromosome"], segs["start"], segs["end"], segs.get("probes", [None] * segs["n"]))) if segs else [],
        "verdicts": verdicts, "cls": cls, "ood": ood, "exc": exc,
        "t_call": snap["t_call"], "t_ret": time.time(),
    }
    if verdicts:
        ev["witness"] = {"bins": {k: v for k, v in b.items() if k != "n"}, "survivors": surv_keys[:400],
                         "segments": {k: v for k, v in segs.items() if k != "n"} if segs else None,
                         "config": {k: snap[k] for k in ("method", "skip_low", "skip_outliers", "min_weight")}}
    run.log_event(ev)


def post_arm(run, snap, res, args, kwargs):
    inner = getattr(run._tls, "seg_inner", None) or []
    run._tls.seg_inner = None
    extra_verdicts = getattr(run._tls, "seg_extra_verdicts", None) or []
    run._tls.seg_extra_verdicts = None
    b = snap["bins"]
    method = snap["method"]
    if isinstance(res, tuple):
        res = res[0]
    if not b["n"]:
        return _emit(run, snap, [], None, "empty-input", None, [])
    if snap["variants"] or method in ("cbs", "flasso") or not snap["has_weight"]:
        return _emit(run, snap, [], None, "variants-or-R-method-or-no-weight", None, [])
    why = _in_domain(b)
    if why:
        return _emit(run, snap, [], None, why, None, [])
    surv_keys = [k for rec in inner for k in rec]
    segs = bins_of(res) if hasattr(res, "data") else None
    verdicts = list(extra_verdicts)
    # survivors vs the deterministic filter model
    model = model_survivors(b, snap["skip_low"], snap["min_weight"])
    mkeys = [(b["chromosome"][i], b["start"][i], b["end"][i]) for i in model]
    if not snap["skip_outliers"]:
        if sorted(mkeys) != sorted(surv_keys):
            verdicts.append(("survivors-differ-from-filter-definition",
                             f"{len(surv_keys)} bins were segmented, the filters (skip_low={snap['skip_low']}, min_weight={snap['min_weight']}) keep {len(mkeys)}"))
    else:
        extra = set(surv_keys) - set(mkeys)
        if extra:
            verdicts.append(("filtered-bin-was-segmented", f"bins {sorted(extra)[:3]} fail the low-coverage/weight filters but were segmented"))
    if not surv_keys:
        # everything filtered: nothing is demanded, but no segment may claim probes
        if segs is not None and segs["n"] and any((p or 0) > 0 for p in segs.get("probes", [])):
            verdicts.append(("segments-without-surviving-bins", "no bin survived but a segment reports probes"))
        return _emit(run, snap, verdicts, "arm:all-filtered", None, segs, surv_keys)
    if segs is None or "probes" not in segs:
        verdicts.append(("no-segment-table", f"result is {type(res).__name__}"))
        return _emit(run, snap, verdicts, None, None, None, surv_keys)
    if not verdicts:
        verdicts = judge(b, surv_keys, segs, method, per_arm=method in PER_ARM)
    nfilt = b["n"] - len(surv_keys)
    edge = (b["chromosome"][0], b["start"][0], b["end"][0]) not in set(surv_keys) or (b["chromosome"][-1], b["start"][-1], b["end"][-1]) not in set(surv_keys)
    cls = f"arm:{method}:" + ("edge-filtered" if edge else "interior-filtered" if nfilt else "nothing-filtered")
    _emit(run, snap, verdicts, cls, None, segs, surv_keys)


def exc_arm(run, snap, exc, args, kwargs):
    run._tls.seg_inner = None
    if snap is None:
        return
    b = snap["bins"]
    ood = None
    if not b["n"] or snap["variants"] or snap["method"] in ("cbs", "flasso") or not snap["has_weight"]:
        ood = "variants-or-R-method-or-no-weight-or-empty"
    else:
        ood = _in_domain(b)
    if ood is None and any(v is None for v in b.get("log2", [])):
        ood = "nan-log2"
    if ood:
        return _emit(run, snap, [], None, ood, None, [], exc=repr(exc))
    model = model_survivors(b, snap["skip_low"], snap["min_weight"])
    first_chrom_all_filtered = snap["method"].startswith("hmm") and all(b["chromosome"][i] != b["chromosome"][0] for i in model) and len(model) > 0
    mech = f"{'hmm' if snap['method'].startswith('hmm') else snap['method']}-raises-{type(exc).__name__}"
    if first_chrom_all_filtered and isinstance(exc, AssertionError):
        mech = "hmm-first-chromosome-all-filtered-AssertionError"
    auto = [b["log2"][i] for i in model if b["chromosome"][i].replace("chr", "").isdigit()] or [b["log2"][i] for i in model]
    if snap["method"].startswith("hmm") and isinstance(exc, ZeroDivisionError) and len(set(auto)) <= 1:
        # the HMM's emission sd is estimated from the autosomal survivors: one bin, or identical values, give 0
        mech = "hmm-zero-variance-ZeroDivisionError"
    _emit(run, snap, [(mech, f"{snap['method']}: raised {exc!r}")], None, None, None, [], exc=repr(exc))


# ------------------------------------------------------- pool entry: delays

def make_ds_delay(orig, main_pid):
    def _ds(args):
        # only inside pool workers; the delay depends on the arm, so the
        # completion order differs from the submission order
        if os.getpid() != main_pid:
            try:
                ca = args[0]
                h = (int(ca.data["start"].iat[0]) * 2654435761 + len(ca)) & 0xFFFF if len(ca) else 0
                time.sleep((h % 7) * 0.004)
            except Exception:
                pass
        return orig(args)
    _ds.__vmon_orig__ = orig
    _ds.__module__ = orig.__module__
    _ds.__qualname__ = orig.__qualname__
    _ds.__name__ = orig.__name__
    return _ds


# ------------------------------------------------------- whole-call monitor

def _new_events(run):
    """Arm events appended to any log of this shard since the last look."""
    offs = run.__dict__.setdefault("_seg_offsets", {})
    out = []
    if not run.workdir:
        return out
    me = os.getpid()
    prefix = f"events.{run.shard}."
    for fn in os.listdir(run.workdir):
        if not (fn.startswith(prefix) and fn.endswith(".jsonl")):
            continue
        path = os.path.join(run.workdir, fn)
        off = offs.get(path, 0)
        try:
            with open(path) as fh:
                fh.seek(off)
                data = fh.read()
                offs[path] = fh.tell()
        except OSError:
            continue
        for line in data.splitlines():
            if line.startswith('{"ev": "arm"'):
                out.append(json.loads(line))
            elif line.startswith('{"ev": "monitor_error"'):
                run.adopt_worker_error(json.loads(line))
        pid = int(fn[len(prefix):-6])
        if pid != me:
            # a finished pool worker: nothing more will be appended
            try:
                os.unlink(path)
            except OSError:
                pass
            offs.pop(path, None)
    return out


def pre_call(run, args, kwargs):
    names = ["cnarr", "method", "diploid_parx_genome", "threshold", "variants", "skip_low", "skip_outliers", "min_weight",
             "save_dataframe", "rscript_path", "processes", "smooth_cbs"]
    d = {"variants": None, "skip_low": False, "skip_outliers": 10, "min_weight": 0, "processes": 1}
    d.update(dict(zip(names, args)))
    d.update(kwargs)
    _new_events(run)   # drop anything stale
    run.__dict__["_seg_callno"] = run.__dict__.get("_seg_callno", 0) + 1
    run._tls.seg_call = run.__dict__["_seg_callno"]
    return {"bins": bins_of(d["cnarr"]), "method": d["method"], "processes": d["processes"], "variants": d["variants"] is not None,
            "skip_low": bool(d["skip_low"]), "skip_outliers": d["skip_outliers"], "min_weight": d["min_weight"],
            "call": run._tls.seg_call}


def _consume(run, snap, mon):
    evs = [e for e in _new_events(run) if e.get("call") == snap["call"]]
    run._tls.seg_call = None
    return evs


def _arms_contradict_table(b, evs):
    """None, or a message when the arms the bins were dispatched in contradict an unambiguous table."""
    per = {}
    for c, s, e in zip(b["chromosome"], b["start"], b["end"]):
        per.setdefault(c, []).append((s, e))
    sizes = {}
    for ev in evs:
        if ev["bins"]:
            sizes.setdefault(ev["bins"][0][0], []).append((tuple(ev["bins"][0][1:3]), len(ev["bins"])))
    for c, rows in per.items():
        n = len(rows)
        if any(b2[0] < a2[0] for a2, b2 in zip(rows, rows[1:])):
            continue                      # not in coordinate order: no opinion
        holes = [(rows[i][0] - rows[i - 1][1], i) for i in range(1, n)]
        big = [(g, i) for g, i in holes if g >= 10_000]
        got = [k for _first, k in sorted(sizes.get(c, []), key=lambda t: rows.index(t[0]) if t[0] in rows else -1)]
        if not big:
            want = [n]
        elif len(big) == 1 and big[0][0] >= 1_000_000:
            i = big[0][1]
            margin = max(50, int(round(0.1 * n)))
            if not (margin + 5 < i < n - margin - 5):      # the outer tenth (at least 50 bins) of a chromosome is never searched for the centromere
                continue
            want = [i, n - i]
        else:
            continue
        if got != want:
            return f"{c}: {n} bins, holes >= 10 kb: {[(g, i) for g, i in big]}; dispatched as arms of {got} bins, the table says {want}"
    return None


def post_call(run, snap, res, args, kwargs):
    mon = "segmentation.do_segmentation"
    arm_mon = "segmentation._do_segmentation[arm]"
    evs = _consume(run, snap, mon)
    b = snap["bins"]
    method = snap["method"]
    if isinstance(res, tuple):
        res = res[0]
    # fold the workers' verdicts into this run
    any_viol = False
    judged = 0
    for e in evs:
        if e.get("ood"):
            run.ood(arm_mon, e["ood"])
            continue
        if e["verdicts"]:
            any_viol = True
            for mech, detail in e["verdicts"]:
                run.violate(arm_mon, mech, f"{method} arm {e['key']}: {detail}", e.get("witness"))
        else:
            judged += 1
            run.held(arm_mon, e.get("cls"))
    if not b["n"] or snap["variants"] or method in ("cbs", "flasso"):
        return run.ood(mon, "empty-or-variants-or-R-method")
    why = _in_domain(b)
    if why:
        return run.ood(mon, why)
    if not evs:
        # The per-arm hook is unavailable (internal function renamed or inlined).  Decide at the API boundary what can be
        # decided there: with the outlier filter off the surviving bins follow from the filter definition alone.
        if run.extra.get("monitor-unavailable:segmentation._do_segmentation[arm]", 0) and not snap["skip_outliers"] and "weight" in b:
            segs = bins_of(res)
            run._tls.last_seg = segs
            if not segs["n"]:
                return run.ood(mon, "no-segment-returned")
            model = model_survivors(b, snap["skip_low"], snap["min_weight"])
            keys = [(b["chromosome"][i], b["start"][i], b["end"][i]) for i in model]
            v = judge(b, keys, segs, method, per_arm=False)
            if v:
                wit = {"method": method, "bins": {k: v_ for k, v_ in b.items() if k != "n"}, "segments": {k: v_ for k, v_ in segs.items() if k != "n"}}
                for mech, detail in v:
                    run.violate(mon, "boundary:" + mech, f"{method}: {detail}", wit)
                return
            return run.held(mon + "[boundary-only]", f"boundary:{method}")
        run._tls.last_seg = bins_of(res) if hasattr(res, "data") else None
        return run.ood(mon, "no-arm-event-observed")
    if any(e.get("ood") for e in evs):
        return run.ood(mon, "an-arm-was-out-of-domain")
    wit = {"method": method, "processes": snap["processes"], "config": {k: snap[k] for k in ("skip_low", "skip_outliers", "min_weight")},
           "bins": {k: v for k, v in b.items() if k != "n"}, "arms": [e["key"] for e in evs]}
    # exactly-once dispatch: every input bin in exactly one arm
    seen = {}
    for e in evs:
        for k in e["bins"]:
            k = tuple(k)
            seen[k] = seen.get(k, 0) + 1
    allbins = list(zip(b["chromosome"], b["start"], b["end"]))
    if sorted(seen) != sorted(allbins) or any(v != 1 for v in seen.values()):
        lost = [k for k in allbins if k not in seen]
        dup = [k for k, v in seen.items() if v > 1]
        return run.violate(mon, "bins-not-dispatched-exactly-once", f"{len(lost)} input bins reached no arm, {len(dup)} reached more than one", wit)
    # the arms themselves, where the table leaves no doubt: a chromosome whose bins are all within 10 kb of each other is one
    # arm; one with a single hole of >= 1 Mb clearly inside its middle part is two, divided at the hole
    if method in PER_ARM:
        bad = _arms_contradict_table(b, evs)
        if bad:
            return run.violate(mon, "arms-not-divided-at-the-centromere-gap", bad, wit)
    segs = bins_of(res)
    run._tls.last_seg = segs
    wit["segments"] = {k: v for k, v in segs.items() if k != "n"}
    # exactly-once collection: the output is the multiset union of the arm results
    want = sorted(tuple(s) for e in evs for s in e["segs"])
    got = sorted(zip(segs["chromosome"], segs["start"], segs["end"], segs.get("probes", [None] * segs["n"])))
    if got != want:
        return run.violate(mon, "output-not-union-of-arm-results", f"{len(got)} output segments vs {len(want)} produced by the arms", wit)
    # the tiling clauses again on the concatenated table
    surv = [tuple(k) for e in evs for k in e["surv"]]
    if not any_viol:
        v = judge(b, surv, segs, method, per_arm=False, check_aggregates=True)
        if v:
            for mech, detail in v:
                run.violate(mon, "whole:" + mech, f"{method}: {detail}", wit)
            return
    if sum(p or 0 for p in segs.get("probes", [])) != len(surv):
        return run.violate(mon, "probes-total", f"probes sum to {sum(segs['probes'])}, {len(surv)} bins survived", wit)
    # schedule evidence
    pids = sorted({e["pid"] for e in evs})
    run.sets["worker_pids_per_call"].add(len(pids))
    by_sub = sorted(range(len(evs)), key=lambda i: (allbins.index(tuple(evs[i]["bins"][0])) if evs[i]["bins"] else -1))
    by_done = sorted(by_sub, key=lambda i: evs[i]["t_ret"])
    if len(evs) > 1 and method in PER_ARM:
        run.extra["calls-with-several-arms"] += 1
        if by_done != by_sub:
            run.extra["calls-completing-out-of-submission-order"] += 1
            run.sets["completion_orders"].add(",".join(str(by_sub.index(i)) for i in by_done)[:60])
        if len(pids) > 1:
            run.extra["calls-spread-over-several-worker-processes"] += 1
    nchrom = len(set(b["chromosome"]))
    if len(evs) > nchrom:
        run.extra["calls-with-arm-split"] += 1
    if not any_viol:
        run.held(mon, f"call:{method}:p{min(int(snap['processes']), 16) if snap['processes'] else 0}")


def exc_call(run, snap, exc, args, kwargs):
    mon = "segmentation.do_segmentation"
    arm_mon = "segmentation._do_segmentation[arm]"
    if snap is None:
        return
    evs = _consume(run, snap, mon)
    reported = False
    for e in evs:
        for mech, detail in e.get("verdicts") or []:
            reported = True
            run.violate(arm_mon, mech, f"{snap['method']} arm {e['key']}: {detail}", e.get("witness"))
    b = snap["bins"]
    if reported or not b["n"] or snap["variants"] or snap["method"] in ("cbs", "flasso") or _in_domain(b):
        return
    if isinstance(exc, ValueError) and "'method' must be one of" in str(exc):
        return
    if "weight" not in b or any(v is None for v in b.get("log2", [])):
        return run.ood(mon, "no-weight-or-nan-log2")
    run.violate(mon, f"{'hmm' if snap['method'].startswith('hmm') else snap['method']}-call-raises-{type(exc).__name__}", f"{snap['method']}: raised {exc!r}",
                {"method": snap["method"], "bins": {k: v for k, v in b.items() if k != "n"}})


# ------------------------------------------------------------ outlier filter
# What an outlier *is* belongs to smoothing.rolling_outlier_quantile (not to this property); which bins leave the table
# does: exactly the bins flagged on their own chromosome's log2 track, in table order.

def _pre_outliers(run, args, kwargs):
    cn = args[0]
    if not hasattr(cn, "data") or not len(cn):
        return None
    df = cn.data
    return {"chrom": [str(c) for c in df["chromosome"].tolist()], "log2": df["log2"].to_numpy(float).copy(),
            "keys": list(zip((str(c) for c in df["chromosome"].tolist()), df["start"].tolist(), df["end"].tolist())),
            "width": args[1] if len(args) > 1 else kwargs.get("width"), "factor": args[2] if len(args) > 2 else kwargs.get("factor")}


def _post_outliers(run, snap, res, args, kwargs):
    mon = "segmentation.drop_outliers"
    if snap is None:
        return
    import cnvlib.smoothing as SM
    from .. import runtime as rt_mod
    roq = getattr(SM, "rolling_outlier_quantile", None)
    if roq is None or snap["width"] is None:
        return run.ood(mon, "no-outlier-detector-to-consult")
    roq = rt_mod.original(roq)
    chrom = snap["chrom"]
    blocks, seen = [], set()
    for i, c in enumerate(chrom):
        if not blocks or blocks[-1][0] != c:
            if c in seen:
                return run.ood(mon, "chromosome-not-contiguous")
            seen.add(c)
            blocks.append([c, i, i + 1])
        else:
            blocks[-1][2] = i + 1
    flagged = np.zeros(len(chrom), bool)
    try:
        for _c, a, z in blocks:
            flagged[a:z] = np.asarray(roq(snap["log2"][a:z], snap["width"], 0.95, snap["factor"]), bool)
    except Exception:
        return run.ood(mon, "outlier-detector-raised")
    want = [k for k, f in zip(snap["keys"], flagged) if not f]
    df = res.data
    got = list(zip((str(c) for c in df["chromosome"].tolist()), df["start"].tolist(), df["end"].tolist()))
    if got != want:
        lost = [k for k in want if k not in set(got)][:3]
        kept = [k for k in got if k not in set(want)][:3]
        v = ("outlier-filter-removed-other-bins-than-the-flagged-ones",
             f"{int(flagged.sum())} bins are flagged on their own chromosome's track; wrongly removed {lost}, wrongly kept {kept}")
        pend = getattr(run._tls, "seg_extra_verdicts", None)
        if pend is not None:
            pend.append(v)
        else:
            run.violate(mon, v[0], v[1], {"keys": snap["keys"][:400], "log2": snap["log2"][:400].tolist(), "flagged": np.nonzero(flagged)[0].tolist()[:50]})
        return
    run.extra["outlier-filter-calls-judged"] += 1
    if flagged.any():
        run.extra["outlier-filter-calls-with-flagged-bins"] += 1
        if len(blocks) > 1:
            run.extra["outlier-filter-calls-with-flagged-bins:several-chromosomes"] += 1


def attach_all(run, rt, delays=True):
    import cnvlib.segmentation as S
    import cnvlib.commands as CM
    from cnvlib.segmentation import haar, none, hmm
    traced = [("segmentation.do_segmentation", rt.opt(S, "do_segmentation")), ("segmentation._do_segmentation", rt.opt(S, "_do_segmentation")),
              ("segmentation.transfer_fields", rt.opt(S, "transfer_fields")), ("segmentation.drop_outliers", rt.opt(S, "drop_outliers")),
              ("none.segment_none", rt.opt(none, "segment_none")), ("haar.segment_haar", rt.opt(haar, "segment_haar")), ("haar.one_chrom", rt.opt(haar, "one_chrom")),
              ("haar.haarSeg", rt.opt(haar, "haarSeg")), ("hmm.segment_hmm", rt.opt(hmm, "segment_hmm"))]
    import cnvlib.segfilters as F
    traced += [("segfilters.squash_by_groups", rt.opt(F, "squash_by_groups")), ("segfilters.squash_region", rt.opt(F, "squash_region"))]
    rt.attach(haar, "segment_haar", name="haar.segment_haar[survivors]", pre=_pre_inner)
    rt.attach(none, "segment_none", name="none.segment_none[survivors]", pre=_pre_inner)
    rt.attach(hmm, "segment_hmm", name="hmm.segment_hmm[survivors]", pre=_pre_inner)
    rt.attach(S, "drop_outliers", name="segmentation.drop_outliers", pre=_pre_outliers, post=_post_outliers)
    rt.attach(S, "_do_segmentation", name="segmentation._do_segmentation[arm]", pre=pre_arm, post=post_arm, on_exc=exc_arm)
    if delays and hasattr(S, "_ds"):
        S._ds = make_ds_delay(S._ds, os.getpid())
        rt._ATTACHED.append((S, "_ds", S._ds.__vmon_orig__))
    elif delays:
        run.extra["injection-unavailable:segmentation._ds"] += 1      # pool entry point renamed: no delays, schedule quotas decide
    rt.attach(S, "do_segmentation", name="segmentation.do_segmentation", pre=pre_call, post=post_call, on_exc=exc_call,
              also=[(CM, "do_segmentation")])
    return traced
