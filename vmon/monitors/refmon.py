"""Monitors on cnvlib.reference (C05).

* reference.summarize_info — every column of the real log2 / depth matrices is
  re-estimated with the independent biweight model (location; midvariance
  about that location).
* reference.combine_probes — recorder: the `sexes` mapping actually used.
* reference.do_reference   — the monitor parses the .cnn files itself (plain
  csv), recomputes each matrix row (median-of-chromosome-medians centring, sex
  shift to the reference sex), compares it with the matrix summarize_info
  received and the final table with the estimator of those columns; bins of
  the result; refusal of files whose bins differ; semantic clauses against the
  generator's ground truth (depth-only cohorts, sex mixes, inferred sexes).
* reference.do_reference_flat and reference.get_fasta_stats — flat values by
  chromosome class; gc / rmask by counting characters of the FASTA text read
  with an independent parser.
"""
import csv
import os

import numpy as np

from ..models import robust as RB


def _strip(c):
    return c[3:] if c.startswith("chr") else c


def chrom_class(c):
    s = _strip(c)
    if s.isdigit():
        return "auto"
    if s == "X":
        return "X"
    if s == "Y":
        return "Y"
    return "other"


def chrom_key(c):
    s = _strip(c)
    if s.isdigit():
        return (int(s), "")
    if s in ("X", "Y"):
        return (1000, s)
    return (3000, s)


def parse_cnn(path):
    """Plain-csv reading of a .cnn/.cnr file: dict of columns."""
    with open(path) as fh:
        rows = list(csv.reader(fh, delimiter="\t"))
    if not rows:
        return {"n": 0, "cols": []}
    head, body = rows[0], rows[1:]
    out = {"n": len(body), "cols": head}
    for j, h in enumerate(head):
        col = [r[j] for r in body]
        if h in ("start", "end"):
            out[h] = [int(x) for x in col]
        elif h in ("chromosome", "gene"):
            out[h] = col
        else:
            out[h] = [float(x) if x not in ("", "NA", "nan", "NaN") else float("nan") for x in col]
    return out


def fbase(p):
    b = os.path.basename(p)
    for ext in (".antitargetcoverage.cnn", ".targetcoverage.cnn"):
        if b.endswith(ext):
            return b[: -len(ext)]
    return b.rsplit(".", 1)[0]


def model_centre(t, skip_low):
    """-(median of autosomal chromosome medians); 0 if nothing qualifies."""
    per = {}
    any_auto = any(chrom_class(c) == "auto" for c in t["chromosome"])
    for i in range(t["n"]):
        c = t["chromosome"][i]
        if any_auto and chrom_class(c) != "auto":
            continue
        lg = t["log2"][i]
        if skip_low and (lg < -15.0 or ("depth" in t and t["depth"][i] == 0)):
            continue
        per.setdefault(c, []).append(lg)
    if not per:
        return None
    return float(np.median([np.median(v) for v in per.values()]))


def model_row(t, skip_low, is_xx, male_ref):
    """A sample's matrix row: centred log2 shifted to the reference sex."""
    ctr = model_centre(t, skip_low)
    x = np.array(t["log2"], float) - (ctr if ctr is not None else 0.0)
    cls = [chrom_class(c) for c in t["chromosome"]]
    for i, k in enumerate(cls):
        if k == "X":
            # female sample: 0 relative to a female reference, -1 to a male one; male sample: one more
            x[i] += (-1.0 if male_ref else 0.0) + (0.0 if is_xx else 1.0)
        elif k == "Y":
            x[i] = -1.0 if is_xx else x[i] - 1.0 + 1.0
    return x


def flat_row(t, male_ref):
    return np.array([-1.0 if (k == "Y" or (k == "X" and male_ref)) else 0.0 for k in (chrom_class(c) for c in t["chromosome"])])


# ------------------------------------------------------------ summarize_info

def pre_summ(run, args, kwargs):
    return {"logr": np.array(args[0], float, copy=True), "depths": np.array(args[1], float, copy=True)}


def judge_columns(mat, loc, spread, what):
    """Returns (violation or None, n_judged, n_illconditioned)."""
    judged = ill = 0
    for j in range(mat.shape[1]):
        col = mat[:, j]
        col = col[~np.isnan(col)]
        if len(col) < 2:
            continue
        want, ok = RB.biweight_location(col)
        if not ok:
            ill += 1
            continue
        if not abs(loc[j] - want) <= 1e-9 * max(1.0, abs(want)):
            return (f"{what}-not-biweight-location", f"column {j} {col.tolist()}: {loc[j]} but Tukey's biweight location is {want}"), judged, ill
        if spread is not None:
            vals, okv = RB.biweight_midvariance_variants(col, loc[j])
            if okv and vals and not any(abs(spread[j] - v) <= 1e-9 * max(1.0, abs(v)) for v in vals):
                return (f"{what}-spread-not-biweight-midvariance", f"column {j} {col.tolist()}: spread {spread[j]}, midvariance about {loc[j]} is {vals}"), judged, ill
        judged += 1
    return None, judged, ill


def post_summ(run, snap, res, args, kwargs):
    mon = "reference.summarize_info"
    logr, depths = snap["logr"], snap["depths"]
    cap = getattr(run._tls, "ref_capture", None)
    if cap is not None:
        cap["logr"] = logr
        cap["depths"] = depths
    if logr.ndim != 2 or logr.shape[1] == 0:
        return run.ood(mon, "empty-matrix")
    v, judged, ill = judge_columns(logr, np.asarray(res["log2"], float), np.asarray(res["spread"], float), "log2")
    if v:
        return run.violate(mon, v[0], v[1], {"matrix_head": logr[:, :6].tolist()})
    v2, j2, ill2 = judge_columns(depths, np.asarray(res["depth"], float), None, "depth") if depths.size else (None, 0, 0)
    if v2:
        return run.violate(mon, v2[0], v2[1], {"depths_head": depths[:, :6].tolist()})
    run.extra["summarize_info:columns-judged"] += judged
    run.extra["summarize_info:columns-illconditioned(MAD~0)"] += ill
    if judged:
        run.held(mon, f"summ:rows={min(logr.shape[0], 9)}")
    else:
        run.ood(mon, "every-column-ill-conditioned")


# ------------------------------------------------------------- combine_probes

def pre_combine(run, args, kwargs):
    cap = getattr(run._tls, "ref_capture", None)
    if cap is not None and len(args) > 5:
        cap["sexes"] = dict(args[5])
    return None


# ---------------------------------------------------------------- do_reference

def _ref_args(args, kwargs):
    names = ["target_fnames", "antitarget_fnames", "fa_fname", "is_haploid_x_reference", "diploid_parx_genome", "female_samples",
             "do_gc", "do_edge", "do_rmask", "do_cluster", "min_cluster_size"]
    d = {"antitarget_fnames": None, "fa_fname": None, "is_haploid_x_reference": False, "diploid_parx_genome": None, "female_samples": None,
         "do_gc": True, "do_edge": True, "do_rmask": True, "do_cluster": False}
    d.update(dict(zip(names, args)))
    d.update(kwargs)
    return d


def pre_ref(run, args, kwargs):
    a = _ref_args(args, kwargs)
    run._tls.ref_capture = {}
    snap = {"opts": {k: a[k] for k in ("fa_fname", "is_haploid_x_reference", "diploid_parx_genome", "female_samples", "do_gc", "do_edge", "do_rmask", "do_cluster")},
            "tfiles": list(a["target_fnames"]), "afiles": list(a["antitarget_fnames"] or [])}
    try:
        snap["t"] = [parse_cnn(f) for f in sorted(snap["tfiles"], key=fbase)]
        snap["a"] = [parse_cnn(f) for f in sorted(snap["afiles"], key=fbase)]
    except Exception as exc:
        snap["parse_error"] = repr(exc)
    return snap


def _bins(t):
    return list(zip(t["chromosome"], t["start"], t["end"], t["gene"])) if t["n"] else []


def _mismatch(snap):
    for grp in (snap.get("t", []), snap.get("a", [])):
        if grp and any(_bins(x) != _bins(grp[0]) for x in grp[1:]):
            return True
    return False


def post_ref(run, snap, res, args, kwargs):
    mon = "reference.do_reference"
    cap = getattr(run._tls, "ref_capture", None) or {}
    run._tls.ref_capture = None
    if "parse_error" in snap:
        return run.ood(mon, "files-not-plain-tsv")
    o = snap["opts"]
    T, A = snap["t"], snap["a"]
    wit = {"options": o, "target_files": snap["tfiles"], "antitarget_files": snap["afiles"], "sexes_used": cap.get("sexes"),
           "first_target_head": {k: v[:8] for k, v in T[0].items() if isinstance(v, list)} if T else None}
    if _mismatch(snap):
        return run.violate(mon, "mismatching-bins-accepted", "files whose bins differ were pooled into a reference", wit)
    if not T or not T[0]["n"] or o["do_cluster"] or o["diploid_parx_genome"]:
        return run.ood(mon, "no-target-bins-or-cluster-or-PAR")
    if A and len(A) != len(T):
        return run.ood(mon, "unequal-file-counts")
    if any(chrom_class(c) == "other" for c in T[0]["chromosome"]):
        return run.ood(mon, "non-canonical-chromosome")
    out = res.data
    got_bins = list(zip(out["chromosome"].tolist(), (int(x) for x in out["start"]), (int(x) for x in out["end"]), out["gene"].tolist()))
    a_bins = _bins(A[0]) if A else []
    want_bins = sorted(_bins(T[0]) + a_bins, key=lambda b: (chrom_key(b[0]), b[1], b[2]))
    if got_bins != want_bins:
        return run.violate(mon, "reference-bins-differ-from-input-bins", f"{len(got_bins)} bins out, the files hold {len(want_bins)}; first difference "
                           f"{next(((g, w) for g, w in zip(got_bins, want_bins) if g != w), None)}", wit)
    for col in ("log2", "spread", "depth"):
        if col not in out.columns:
            return run.violate(mon, "missing-column", f"reference has no {col} column", wit)
    key = [b[:3] for b in got_bins]
    if len(set(key)) != len(key):
        return run.ood(mon, "duplicate-coordinates")
    ref_log2 = dict(zip(key, out["log2"].values.astype(float)))
    ref_spread = dict(zip(key, out["spread"].values.astype(float)))
    male_ref = bool(o["is_haploid_x_reference"])
    sexes = cap.get("sexes")
    corrections = []
    has_gc = bool(o["fa_fname"]) or "gc" in T[0]
    if o["do_gc"] and has_gc:
        corrections.append("gc")
    if o["do_edge"]:
        corrections.append("edge")
    if o["do_rmask"] and o["fa_fname"] and A and A[0]["n"]:
        corrections.append("rmask")
    exact = not corrections
    truth = (run.case or {}).get("cohort")
    if sexes is None and truth and truth.get("is_xx"):
        # the helper that is handed the sexes is not on this tree's path: take the cohort's own (given, or true and -- by construction of the
        # cohorts -- inferable; a wrong inference then shows as a matrix row that fits no sample)
        sexes = dict(truth["is_xx"])
        run.extra["exact-clause:sexes-from-the-cohort-truth"] += 1
    if exact and sexes is not None and "logr" not in cap:
        # nor is the matrix observable: judge the result itself, bin by bin, against the estimator of the model rows
        v = _exact_at_boundary(T, A, sexes, male_ref, snap, key, ref_log2, ref_spread)
        if v == "nan":
            run.ood(mon + "[exact]", "nan-log2")
        elif v:
            return run.violate(mon + "[exact]", "boundary:" + v[0], v[1], wit)
        else:
            run.held(mon + "[exact]", f"exact-at-boundary:samples={len(T)}")
        exact = False
        if truth:
            _semantic(run, truth, key, ref_log2, ref_spread, sexes, male_ref, corrections, wit)
        return run.held(mon, "ref:exact-at-boundary" + f":n={len(T)}")
    # ---- exact clause: matrix rows and estimator, end to end
    if exact and sexes is not None and "logr" in cap:
        ids = [fbase(f) for f in sorted(snap["tfiles"], key=fbase)]
        blocks = [(T, True)] + ([(A, False)] if A and A[0]["n"] else [])
        # Row order is irrelevant to a per-bin estimator, so rows are matched as a
        # multiset, block by block (targets, antitargets).
        cols_key, want_blocks = [], []
        nan_in = False
        got = cap["logr"]
        off = 0
        verdict = None
        for grp, skip_low in blocks:
            cols_key += [b[:3] for b in _bins(grp[0])]
            width = grp[0]["n"]
            if got.shape[0] != len(T) + 1 or got.shape[1] < off + width:
                verdict = ("matrix-shape", f"log2 matrix is {got.shape}, {len(T)} samples + 1 pseudo-sample expected")
                break
            gb = got[:, off:off + width]
            unused = list(range(gb.shape[0]))
            wrows = [("the neutral pseudo-sample", [flat_row(grp[0], male_ref)])]
            for k, t in enumerate(grp):
                if any(v != v for v in t["log2"]):
                    nan_in = True
                xx = bool(sexes.get(ids[k]))
                # "median-centring" does not say whether uncovered bins take part: either is accepted
                wrows.append((f"sample {ids[k]} (is_xx={sexes.get(ids[k])})", [model_row(t, skip_low, xx, male_ref), model_row(t, not skip_low, xx, male_ref)]))
            chosen = []
            for who, cands in wrows:
                hit = next((r for r in unused for c in cands if np.all(np.abs(gb[r] - c) <= 1e-9 * np.maximum(1.0, np.abs(c)))), None)
                if hit is None and not nan_in:
                    # report against the closest remaining row
                    r = min(unused, key=lambda r: float(np.nanmax(np.abs(gb[r] - cands[0]))))
                    c = int(np.nanargmax(np.abs(gb[r] - cands[0])))
                    verdict = ("pseudo-sample-row-wrong" if who.startswith("the neutral") else "sample-row-not-centred-and-sex-shifted",
                               f"{who}, bin {cols_key[off + c]}: no matrix row matches; closest holds {gb[r, c]}, centring + shift to a {'male' if male_ref else 'female'} reference gives {cands[0][c]}")
                    break
                if hit is not None:
                    unused.remove(hit)
                    chosen.append(gb[hit])
            if verdict:
                break
            want_blocks.append(np.vstack(chosen) if chosen else gb)
            off += width
        if nan_in:
            run.ood(mon + "[exact]", "nan-log2")
        elif verdict:
            return run.violate(mon + "[exact]", verdict[0], verdict[1], wit)
        elif got.shape[1] != off:
            return run.violate(mon + "[exact]", "matrix-shape", f"log2 matrix has {got.shape[1]} columns for {off} bins", wit)
        else:
            want = np.hstack(want_blocks)
            loc = np.array([ref_log2[k] for k in cols_key])
            spr = np.array([ref_spread[k] for k in cols_key])
            v, judged, ill = judge_columns(want, loc, spr, "reference-log2")
            if v:
                return run.violate(mon + "[exact]", v[0], v[1], wit)
            run.held(mon + "[exact]", f"exact:samples={len(T)}:{'male' if male_ref else 'female'}-ref" + (":anti" if len(blocks) > 1 else ""))
    elif exact:
        run.ood(mon + "[exact]", "matrix-or-sexes-not-observed")
    # ---- semantic clauses against the generator's ground truth
    if truth:
        _semantic(run, truth, key, ref_log2, ref_spread, sexes, male_ref, corrections, wit)
    run.held(mon, "ref:" + ("exact" if exact else "+".join(corrections)) + f":n={len(T)}")


def _exact_at_boundary(T, A, sexes, male_ref, snap, key, ref_log2, ref_spread):
    """The exact clause without a view of the matrix: per block, the result's log2/spread must be the estimators of
    [neutral pseudo-sample] + [each sample's centred, sex-shifted row]; either centring convention is accepted (consistently)."""
    ids = [fbase(f) for f in sorted(snap["tfiles"], key=fbase)]
    blocks = [(T, True)] + ([(A, False)] if A and A[0]["n"] else [])
    for grp, skip_low in blocks:
        if any(v != v for t in grp for v in t["log2"]):
            return "nan"
        cols_key = [b[:3] for b in _bins(grp[0])]
        loc = np.array([ref_log2[k] for k in cols_key])
        spr = np.array([ref_spread[k] for k in cols_key])
        first = None
        for conv in (skip_low, not skip_low):
            rows = [flat_row(grp[0], male_ref)] + [model_row(t, conv, bool(sexes.get(ids[k])), male_ref) for k, t in enumerate(grp)]
            v, _judged, _ill = judge_columns(np.vstack(rows), loc, spr, "reference-log2")
            if not v:
                break
            first = first or v
        else:
            return first
    return None


def _semantic(run, truth, key, ref_log2, ref_spread, sexes, male_ref, corrections, wit):
    mon = "reference.do_reference[semantic]"
    wit = dict(wit, truth={k: v for k, v in truth.items() if k != "profile"})
    # inferred sexes
    if truth.get("inferred") and sexes is not None:
        wrong = [(sid, sexes.get(sid), tx) for sid, tx in truth["is_xx"].items() if sexes.get(sid) is not None and bool(sexes.get(sid)) != tx]
        if wrong:
            return run.violate(mon, "sample-sex-inferred-wrong", f"(sample, inferred is_xx, true is_xx): {wrong[:3]}", wit)
        missing = [sid for sid in truth["is_xx"] if sexes.get(sid) is None]
        if missing:
            # every generated cohort with inferred sexes holds >= 45 chrX bins at the level of the sample's sex in at least one of its files
            return run.violate(mon, "sample-sex-not-inferred", f"no sex was inferred for {missing[:3]} although their files hold chrX bins at the expected level "
                               f"(the pooled profile then treats them as male)", wit)
    cls = {k: chrom_class(k[0]) for k in key}
    if truth["kind"] == "depth-only" and not corrections:
        # normals that differ only in depth reproduce their common profile, spread ~ 0
        prof = truth["profile"]     # {key: centred expected log2 in the reference sex}; NaN where the cohort's sexes differ (chrY)
        fin = [k for k in key if prof[tuple(k)] == prof[tuple(k)]]
        if not fin:
            return run.ood(mon, "no-comparable-bin")
        worst = max(fin, key=lambda k: abs(ref_log2[k] - prof[tuple(k)]))
        if abs(ref_log2[worst] - prof[tuple(worst)]) > 2e-3:
            return run.violate(mon, "depth-only-cohort-profile-not-reproduced", f"bin {worst}: reference {ref_log2[worst]}, common profile {prof[tuple(worst)]}", wit)
        ws = max(fin, key=lambda k: ref_spread[k])
        if ref_spread[ws] > 2e-3:
            return run.violate(mon, "depth-only-cohort-spread-not-zero", f"bin {ws}: spread {ref_spread[ws]}", wit)
        run.held(mon, "depth-only")
    if truth["kind"] == "sex-mix":
        tol = truth["tol"]
        means = {}
        for c in ("auto", "X", "Y"):
            v = [ref_log2[k] for k in key if cls[k] == c]
            if v:
                means[c] = float(np.mean(v))
        base = means.get("auto", 0.0)
        if "X" in means:
            want = -1.0 if male_ref else 0.0
            if abs(means["X"] - base - want) > tol:
                return run.violate(mon, "chrX-not-at-reference-sex-level", f"chrX mean {means['X']:.3f} vs autosomes {base:.3f}: expected {want:+.1f} for a {'male' if male_ref else 'female'} reference (tolerance {tol:.3f})", wit)
        if "Y" in means:
            if abs(means["Y"] - base + 1.0) > tol:
                return run.violate(mon, "chrY-not-at-single-copy-level", f"chrY mean {means['Y']:.3f} vs autosomes {base:.3f}: expected -1.0 (tolerance {tol:.3f})", wit)
        run.held(mon, "sex-mix:" + ("male-ref" if male_ref else "female-ref") + (":corrected" if corrections else ":exact") + (":inferred" if truth.get("inferred") else ":given"))


def exc_ref(run, snap, exc, args, kwargs):
    mon = "reference.do_reference"
    run._tls.ref_capture = None
    if snap is None or "parse_error" in snap:
        return
    if _mismatch(snap):
        if isinstance(exc, RuntimeError):
            return run.held(mon, "refusal:mismatching-bins")
        return run.violate(mon, "mismatch-refused-with-other-error", f"raised {exc!r}", None)
    T = snap["t"]
    if not T or not T[0]["n"] or any(chrom_class(c) == "other" for c in T[0]["chromosome"]):
        return run.ood(mon, "no-target-bins-or-odd-chromosomes")
    if snap["a"] and len(snap["a"]) != len(T):
        return run.ood(mon, "unequal-file-counts")
    run.violate(mon, f"reference-raises-{type(exc).__name__}", f"raised {exc!r} on a well-formed cohort", {"options": snap["opts"], "files": snap["tfiles"]})


# ------------------------------------------------------------------ FASTA stats

def read_fasta(path):
    seqs, name, buf = {}, None, []
    with open(path) as fh:
        for line in fh:
            line = line.rstrip("\n").rstrip("\r")
            if line.startswith(">"):
                if name is not None:
                    seqs[name] = "".join(buf)
                name, buf = line[1:].split()[0], []
            else:
                buf.append(line)
    if name is not None:
        seqs[name] = "".join(buf)
    return seqs


def pre_fasta(run, args, kwargs):
    cn, fa = args[0], args[1]
    df = cn.data
    return {"bins": list(zip(df["chromosome"].tolist(), (int(x) for x in df["start"]), (int(x) for x in df["end"]))), "fa": fa}


def post_fasta(run, snap, res, args, kwargs):
    mon = "reference.get_fasta_stats"
    try:
        seqs = read_fasta(snap["fa"])
    except Exception:
        return run.ood(mon, "fasta-unreadable")
    gc, rm = np.asarray(res[0], float), np.asarray(res[1], float)
    bins = snap["bins"]
    if len(gc) != len(bins) or len(rm) != len(bins):
        return run.violate(mon, "fasta-stats-length", f"{len(gc)} values for {len(bins)} bins", None)
    seen, prev = set(), None
    for b in bins:
        if b[0] != prev:
            if b[0] in seen:
                return run.ood(mon, "chromosome-not-contiguous")
            seen.add(b[0])
            prev = b[0]
    n_with_n = 0
    for i, (c, s, e) in enumerate(bins):
        if c not in seqs or e > len(seqs[c]) or s < 0 or e <= s:
            return run.ood(mon, "bin-outside-fasta")
        sub = seqs[c][s:e]
        unamb = sum(sub.count(ch) for ch in "ACGTacgt")
        if unamb == 0:
            continue
        g = sum(sub.count(ch) for ch in "GCgc") / unamb
        lo_unamb = sum(sub.count(ch) for ch in "acgt")
        lo_all = sum(1 for ch in sub if ch.islower())
        rm_ok = {lo_unamb / unamb, lo_all / len(sub), lo_unamb / len(sub)}
        if unamb != len(sub):
            n_with_n += 1
        wit = {"bin": (c, s, e), "sequence": sub[:200], "gc": float(gc[i]), "rmask": float(rm[i])}
        if abs(gc[i] - g) > 1e-12:
            return run.violate(mon, "gc-not-GC-fraction-of-unambiguous-bases", f"bin {c}:{s}-{e}: gc={gc[i]}, counting gives {g}", wit)
        if not any(abs(rm[i] - r) <= 1e-12 for r in rm_ok):
            return run.violate(mon, "rmask-not-lowercase-fraction", f"bin {c}:{s}-{e}: rmask={rm[i]}, counting gives {sorted(rm_ok)}", wit)
    run.extra["fasta-bins-with-N"] += n_with_n
    run.held(mon, "fasta" + (":with-N" if n_with_n else ""))


# ------------------------------------------------------------- do_reference_flat

def pre_flat(run, args, kwargs):
    names = ["targets", "antitargets", "fa_fname", "is_haploid_x_reference", "diploid_parx_genome"]
    d = {"antitargets": None, "fa_fname": None, "is_haploid_x_reference": False, "diploid_parx_genome": None}
    d.update(dict(zip(names, args)))
    d.update(kwargs)
    return d


def post_flat(run, snap, res, args, kwargs):
    mon = "reference.do_reference_flat"
    if snap["diploid_parx_genome"]:
        return run.ood(mon, "PAR-genome")
    df = res.data
    male = bool(snap["is_haploid_x_reference"])
    for c, s, lg in zip(df["chromosome"].tolist(), df["start"].tolist(), df["log2"].tolist()):
        k = chrom_class(c)
        if k == "other":
            continue
        want = -1.0 if (k == "Y" or (k == "X" and male)) else 0.0
        if lg != want:
            return run.violate(mon, "flat-value-wrong", f"{c}:{s}: log2 {lg}, a flat {'male' if male else 'female'} reference has {want}", {"head": df.head(30)})
    if snap["fa_fname"] and ("gc" not in df.columns or "rmask" not in df.columns):
        return run.violate(mon, "flat-reference-lacks-gc-rmask", "a FASTA was given but gc/rmask are missing", None)
    run.held(mon, "flat:" + ("male" if male else "female") + (":fasta" if snap["fa_fname"] else ""))


def attach_all(run, rt):
    import cnvlib.reference as R
    import cnvlib.commands as CM
    import cnvlib.descriptives as D
    import cnvlib.cnary as CN
    traced = [("reference.do_reference", rt.opt(R, "do_reference")), ("reference.do_reference_flat", rt.opt(R, "do_reference_flat")), ("reference.infer_sexes", rt.opt(R, "infer_sexes")),
              ("reference.combine_probes", rt.opt(R, "combine_probes")), ("reference.load_sample_block", rt.opt(R, "load_sample_block")),
              ("reference.bias_correct_logr", rt.opt(R, "bias_correct_logr")), ("reference.shift_sex_chroms", rt.opt(R, "shift_sex_chroms")),
              ("reference.summarize_info", rt.opt(R, "summarize_info")), ("reference.get_fasta_stats", rt.opt(R, "get_fasta_stats")), ("reference.calculate_gc_lo", rt.opt(R, "calculate_gc_lo")),
              ("reference.fasta_extract_regions", rt.opt(R, "fasta_extract_regions")), ("descriptives.biweight_location", rt.opt(D, "biweight_location")),
              ("descriptives.biweight_midvariance", rt.opt(D, "biweight_midvariance")), ("CopyNumArray.expect_flat_log2", rt.opt(CN.CopyNumArray, "expect_flat_log2"))]
    rt.attach(R, "summarize_info", name="reference.summarize_info", pre=pre_summ, post=post_summ)
    rt.attach(R, "combine_probes", name="reference.combine_probes[sexes]", pre=pre_combine)
    rt.attach(R, "get_fasta_stats", name="reference.get_fasta_stats", pre=pre_fasta, post=post_fasta)
    rt.attach(R, "do_reference", name="reference.do_reference", pre=pre_ref, post=post_ref, on_exc=exc_ref, also=[(CM, "do_reference")])
    rt.attach(R, "do_reference_flat", name="reference.do_reference_flat", pre=pre_flat, post=post_flat, also=[(CM, "do_reference_flat")])
    return traced
