"""Monitors on the GenomicArray interval algebra (C06) — attached to the class
attributes, so every internal user (antitarget, access, target, autobin, ...)
is judged too.  Each monitor is domain-guarded: inputs outside what the
property quantifies over (unsorted tables, zero-width rows, custom combiners)
are counted as out-of-domain, never judged.
"""
from ..gen import ga_rows
from ..models import intervals as M


def _snap_self(run, args, kwargs):
    return {"a": ga_rows(args[0]), "cols": list(args[0].data.columns)}


def _snap_two(run, args, kwargs):
    other = args[1] if len(args) > 1 else kwargs.get("other")
    return {"a": ga_rows(args[0]), "b": ga_rows(other), "cols": list(args[0].data.columns)}


def _arg(args, kwargs, pos, name, default=None):
    if len(args) > pos:
        return args[pos]
    return kwargs.get(name, default)


def _in_domain(run, mon, *tables):
    for t in tables:
        if not M.is_sorted_table(t):
            run.ood(mon, "unsorted-or-zero-width")
            return False
    return True


def _cls(rows, b=None):
    c = []
    if not rows:
        c.append("empty")
    if M.has_nesting(rows):
        c.append("nested")
    if len({r[0] for r in rows}) > 1:
        c.append("multichrom")
    if b is not None:
        if M.has_nesting(b):
            c.append("b-nested")
        if {r[0] for r in b} - {r[0] for r in rows}:
            c.append("b-only-chrom")
        if {r[0] for r in rows} - {r[0] for r in b}:
            c.append("a-only-chrom")
    return "+".join(c) or "plain"


# ---------------------------------------------------------------------- merge

def post_merge(run, snap, res, args, kwargs):
    mon = "GenomicArray.merge"
    bp = _arg(args, kwargs, 1, "bp", 0)
    if _arg(args, kwargs, 2, "stranded", False) or _arg(args, kwargs, 3, "combine", None):
        return run.ood(mon, "stranded-or-custom-combine")
    a = snap["a"]
    if not _in_domain(run, mon, a):
        return
    got = [r[:3] for r in ga_rows(res)]
    gg = M.chrom_groups(got)
    if gg is None:
        return run.violate(mon, "merge-chromosome-split", "merge() output splits a chromosome's rows", {"a": a, "got": got})
    gd = {c: rs for c, rs in gg}          # chromosome order of the output is not judged here (inputs need not be in natural order)
    if bp == 0:
        wd = {c: [(c, s, e) for s, e in M.runs([(r[1], r[2]) for r in rs])] for c, rs in (M.chrom_groups(a) or [])}
        if gd != wd:
            return run.violate(mon, "merge-not-minimal-union", f"merge() rows {got[:8]} != maximal runs of the union {sum(wd.values(), [])[:8]}",
                               {"a": a, "got": got, "want": sum(wd.values(), [])})
    else:
        wd = {}
        for r in M.merge_rows(a, bp):
            wd.setdefault(r[0], []).append(r)
        if gd != wd:
            return run.violate(mon, "merge-bp-grouping", f"merge(bp={bp}) rows {got[:8]} != documented grouping {sum(wd.values(), [])[:8]}",
                               {"a": a, "bp": bp, "got": got, "want": sum(wd.values(), [])})
    run.held(mon, f"merge:{_cls(a)}:bp{'0' if bp == 0 else '!=0'}")


# -------------------------------------------------------------------- flatten

def post_flatten(run, snap, res, args, kwargs):
    mon = "GenomicArray.flatten"
    if _arg(args, kwargs, 1, "combine", None) or _arg(args, kwargs, 2, "split_columns", None):
        return run.ood(mon, "custom-combine")
    a = snap["a"]
    if not _in_domain(run, mon, a):
        return
    got = ga_rows(res)
    w = {"a": a, "got": [g[:3] for g in got]}
    if M.base_set(got) != M.base_set(a):
        return run.violate(mon, "flatten-coverage", "flatten() pieces do not cover exactly the union", w)
    groups = M.chrom_groups(got)
    if groups is None:
        return run.violate(mon, "flatten-order", "flatten() output splits a chromosome", w)
    cuts = {}
    for r in a:
        cuts.setdefault(r[0], set()).update((r[1], r[2]))
    for c, rs in groups:
        for p, q in zip(rs, rs[1:]):
            if q[1] < p[2] or (q[1], q[2]) < (p[1], p[2]):
                return run.violate(mon, "flatten-overlap", f"flatten() pieces overlap or are out of order: {p[:3]} {q[:3]}", w)
        for p in rs:
            if p[2] <= p[1]:
                return run.violate(mon, "flatten-empty-piece", f"empty piece {p[:3]}", w)
            if any(p[1] < x < p[2] for x in cuts[c]):
                return run.violate(mon, "flatten-uncut-boundary", f"piece {p[:3]} spans an input boundary", w)
    run.held(mon, f"flatten:{_cls(a)}")


def exc_flatten(run, snap, exc, args, kwargs):
    mon = "GenomicArray.flatten"
    if snap is None or _arg(args, kwargs, 1, "combine", None) or _arg(args, kwargs, 2, "split_columns", None):
        return run.ood(mon, "custom-combine")
    if M.is_sorted_table(snap["a"]):
        run.violate(mon, f"flatten-raises-{type(exc).__name__}", f"flatten() raised {exc!r}", {"a": snap["a"]})


# ------------------------------------------------------------------- subtract

def post_subtract(run, snap, res, args, kwargs):
    mon = "GenomicArray.subtract"
    a, b = snap["a"], snap["b"]
    if not _in_domain(run, mon, a, b):
        return
    got = ga_rows(res, [c for c in snap["cols"] if c not in ("chromosome", "start", "end")])
    want = M.subtract_rows(a, [r[:3] for r in b])
    w = {"a": a, "b": [r[:3] for r in b], "got": got, "want": want}
    if M.base_set(got) != M.set_subtract(M.base_set(a), M.base_set(b)):
        mech = "subtract-coverage-nested-b" if M.has_nesting(b) or _overlapping(b) else "subtract-coverage"
        return run.violate(mon, mech, f"a.subtract(b) does not cover exactly a minus b: got {[g[:3] for g in got][:8]}", w)
    if got != want:
        return run.violate(mon, "subtract-rows", f"pieces/fields differ: got {got[:6]} want {want[:6]}", w)
    run.held(mon, f"subtract:{_cls(a, b)}")


def _overlapping(rows):
    for _c, rs in M.chrom_groups(rows) or []:
        m = None
        for r in rs:
            if m is not None and r[1] < m:
                return True
            m = r[2] if m is None else max(m, r[2])
    return False


def exc_two(mon, mechprefix):
    def on_exc(run, snap, exc, args, kwargs):
        if snap is None:
            return
        if M.is_sorted_table(snap["a"]) and M.is_sorted_table(snap["b"]):
            run.violate(mon, f"{mechprefix}-raises-{type(exc).__name__}", f"raised {exc!r}",
                        {"a": snap["a"], "b": snap["b"]})
        else:
            run.ood(mon, "unsorted-or-zero-width")
    return on_exc


# --------------------------------------------------------- intersection (trim)

def post_intersection_cover(run, snap, res, args, kwargs):
    mon = "GenomicArray.intersection[cover]"
    mode = _arg(args, kwargs, 2, "mode", "outer")
    if mode != "trim":
        return run.ood(mon, "mode-not-trim")
    a, b = snap["a"], snap["b"]
    if not _in_domain(run, mon, a, b):
        return
    got = ga_rows(res)
    if M.base_set(got) != M.set_intersect(M.base_set(a), M.base_set(b)):
        return run.violate(mon, "intersection-trim-coverage", f"intersection(trim) != a AND b: got {[g[:3] for g in got][:8]}",
                           {"a": a, "b": [r[:3] for r in b], "got": got})
    run.held(mon, f"intersect:{_cls(a, b)}")


# ------------------------------------------------------------------ subdivide

def post_subdivide(run, snap, res, args, kwargs):
    mon = "GenomicArray.subdivide"
    avg = _arg(args, kwargs, 1, "avg_size")
    mn = _arg(args, kwargs, 2, "min_size", 0)
    a = snap["a"]
    if avg is None or avg < 1:
        return run.ood(mon, "avg<1")
    if not _in_domain(run, mon, a):
        return
    got = [r[:3] for r in ga_rows(res)]
    w = {"a": [r[:3] for r in a], "avg": avg, "min": mn, "got": got}
    gg = M.chrom_groups(got)
    if gg is None:
        return run.violate(mon, "subdivide-chromosome-split", "subdivide() output splits a chromosome's rows", w)
    gd = {c: rs for c, rs in gg}
    ties = 0
    seen_chroms = set()
    for c, rs in (M.chrom_groups(a) or []):
        seen_chroms.add(c)
        gotc = gd.get(c, [])
        i = 0
        for s, e in M.runs([(r[1], r[2]) for r in rs]):
            span = e - s
            if span < mn:
                if i < len(gotc) and gotc[i][1] < e and gotc[i][2] > s:
                    return run.violate(mon, "subdivide-kept-small", f"region {c}:{s}-{e} < min_size {mn} kept", w)
                continue
            counts = M.subdivide_counts(span, avg)
            ties += M.subdivide_is_tie(span, avg)
            bins = []
            while i < len(gotc) and gotc[i][1] >= s and gotc[i][2] <= e and gotc[i][1] < e:
                bins.append(gotc[i])
                i += 1
                if bins[-1][2] == e:
                    break
            if not bins:
                return run.violate(mon, "subdivide-dropped", f"region {c}:{s}-{e} (>= min_size {mn}) has no bins", w)
            if bins[0][1] != s or bins[-1][2] != e or any(p[2] != q[1] for p, q in zip(bins, bins[1:])) or any(b[2] <= b[1] for b in bins):
                return run.violate(mon, "subdivide-not-consecutive", f"bins of {c}:{s}-{e} are not a consecutive exact cover: {bins[:6]}", w)
            if len(bins) not in counts:
                return run.violate(mon, "subdivide-count", f"{c}:{s}-{e}: {len(bins)} bins, expected max(1, round({span}/{avg})) = {sorted(counts)}", w)
            sizes = [b[2] - b[1] for b in bins]
            if max(sizes) - min(sizes) > 1:
                return run.violate(mon, "subdivide-unequal", f"{c}:{s}-{e}: bin sizes {sorted(set(sizes))} differ by more than 1", w)
        if i != len(gotc):
            return run.violate(mon, "subdivide-extra-rows", f"unexpected output row {gotc[i]}", w)
    if set(gd) - seen_chroms:
        return run.violate(mon, "subdivide-extra-rows", f"output on chromosomes {sorted(set(gd) - seen_chroms)} absent from the input", w)
    run.held(mon, f"subdivide:{_cls(a)}" + (":tie" if ties else ""))


# --------------------------------------------------------------------- resize

def post_resize(run, snap, res, args, kwargs):
    mon = "GenomicArray.resize_ranges"
    bp = _arg(args, kwargs, 1, "bp")
    sizes = _arg(args, kwargs, 2, "chrom_sizes", None)
    a = snap["a"]
    if any(r[2] <= r[1] for r in a):
        return run.ood(mon, "zero-width")
    if sizes:
        sizes = dict(sizes)
        if any(r[0] not in sizes or r[2] > sizes[r[0]] for r in a):
            return run.ood(mon, "row-beyond-chrom-size")
    got = ga_rows(res, [c for c in snap["cols"] if c not in ("chromosome", "start", "end")])
    want = M.resize_rows(a, bp, sizes)
    if got != want:
        mech = "resize-shrink" if bp < 0 else "resize-grow"
        return run.violate(mon, mech, f"resize_ranges({bp}) got {got[:6]} want {want[:6]}", {"a": a, "bp": bp, "sizes": sizes, "got": got, "want": want})
    run.held(mon, "resize:" + ("shrink" if bp < 0 else "grow") + (":sizes" if sizes else ""))


# ----------------------------------------------------------- total_range_size

def post_total(run, snap, res, args, kwargs):
    mon = "GenomicArray.total_range_size"
    a = snap["a"]
    if not _in_domain(run, mon, a):
        return
    want = M.set_size(M.base_set(a))
    if int(res) != want:
        return run.violate(mon, "total-range-size", f"total_range_size() = {res}, union has {want} bases", {"a": a})
    run.held(mon)


def attach_all(run, rt, which=("merge", "flatten", "subtract", "intersection", "subdivide", "resize_ranges", "total_range_size")):
    from skgenome import GenomicArray as GA
    traced = []
    import skgenome.merge, skgenome.subtract, skgenome.subdivide, skgenome.intersect  # noqa
    spec = {
        "merge": dict(pre=_snap_self, post=post_merge),
        "flatten": dict(pre=_snap_self, post=post_flatten, on_exc=exc_flatten),
        "subtract": dict(pre=_snap_two, post=post_subtract, on_exc=exc_two("GenomicArray.subtract", "subtract")),
        "intersection": dict(pre=_snap_two, post=post_intersection_cover, name="GenomicArray.intersection[cover]",
                             on_exc=exc_two("GenomicArray.intersection[cover]", "intersection")),
        "subdivide": dict(pre=_snap_self, post=post_subdivide),
        "resize_ranges": dict(pre=_snap_self, post=post_resize),
        "total_range_size": dict(pre=_snap_self, post=post_total),
    }
    for w in which:
        kw = dict(spec[w])
        kw.setdefault("name", f"GenomicArray.{w}")
        rt.attach(GA, w, **kw)
    traced += [
        ("merge._nonoverlapping_groups", rt.opt(skgenome.merge, "_nonoverlapping_groups")),
        ("merge.merge", rt.opt(skgenome.merge, "merge")),
        ("merge.flatten", rt.opt(skgenome.merge, "flatten")),
        ("merge._flatten_tuples", rt.opt(skgenome.merge, "_flatten_tuples")),
        ("merge._squash_tuples", rt.opt(skgenome.merge, "_squash_tuples")),
        ("subtract._subtraction", rt.opt(skgenome.subtract, "_subtraction")),
        ("subdivide._split_targets", rt.opt(skgenome.subdivide, "_split_targets")),
        ("intersect.iter_ranges", rt.opt(skgenome.intersect, "iter_ranges")),
        ("gary.resize_ranges", rt.opt(GA, "resize_ranges")),
        ("gary.intersection", rt.opt(GA, "intersection")),
    ]
    return traced
