"""Monitors for C16: CopyNumArray.by_gene (generator; exactly-once ledger over
the yielded groups), reports.do_genemetrics, reports.do_breaks,
CopyNumArray.squash_genes.
"""
import math

import numpy as np

from ..gen import cna_records
from ..models import genes as G
from ..models import intervals as IV

LOW = -15.0   # null-coverage cut: log2 < NULL_LOG2_COVERAGE - MIN_REF_COVERAGE = -20 + 5


def _arg(args, kwargs, pos, name, default=None):
    if len(args) > pos:
        return args[pos]
    return kwargs.get(name, default)


def _recs(cna, cols=None):
    cols = cols or list(cna.data.columns)
    return cols, [dict(zip(cols, t)) for t in cna_records(cna, cols)]


def _key(r):
    return (r["chromosome"], r["start"], r["end"])


def _isnan(x):
    return x is None or (isinstance(x, float) and math.isnan(x))


# -------------------------------------------------------------------- by_gene

def pre_by_gene(run, args, kwargs):
    cols, recs = _recs(args[0], ["chromosome", "start", "end", "gene"])
    ignore = _arg(args, kwargs, 1, "ignore", G.DEFAULT_IGNORE)
    return {"recs": recs, "ignore": tuple(ignore), "ignore_obj": ignore if isinstance(ignore, list) else None,
            "ignore_before": list(ignore) if isinstance(ignore, list) else None,
            "default_index": bool((args[0].data.index == np.arange(len(args[0]))).all()) if len(args[0]) else True}


def post_by_gene(run, snap, res, args, kwargs):
    mon = "CopyNumArray.by_gene"
    recs = snap["recs"]
    if not recs:
        return run.ood(mon, "empty")
    keys = [_key(r) for r in recs]
    if len(set(keys)) != len(keys):
        return run.ood(mon, "duplicate-coordinates")
    want, why = G.gene_groups([r["chromosome"] for r in recs], [r["gene"] for r in recs], snap["ignore"])
    if want is None:
        return run.ood(mon, why)
    got = []
    for name, sub in res:
        _c, rr = _recs(sub, ["chromosome", "start", "end", "gene"])
        got.append((name, [_key(r) for r in rr]))
    wantk = [(name, [keys[i] for i in idx]) for name, idx in want]
    wit = {"bins": [(r["chromosome"], r["start"], r["end"], r["gene"]) for r in recs][:80], "ignore": snap["ignore"],
           "yielded": [(n, k[:12]) for n, k in got][:40], "expected": [(n, k[:12]) for n, k in wantk][:40]}
    # exactly-once ledger
    count = {}
    for _n, ks in got:
        for k in ks:
            count[k] = count.get(k, 0) + 1
    twice = [k for k, c in count.items() if c > 1]
    never = [k for k in keys if k not in count]
    alien = [k for k in count if k not in set(keys)]
    if twice:
        return run.violate(mon, "bin-yielded-twice", f"bin {twice[0]} is in {count[twice[0]]} groups", wit)
    if never:
        last_of_chrom = {r["chromosome"]: _key(r) for r in recs}
        mech = "trailing-bin-dropped" if never[0] in last_of_chrom.values() else "bin-never-yielded"
        return run.violate(mon, mech, f"bin {never[0]} is in no group", wit)
    if alien:
        return run.violate(mon, "alien-bin", f"yielded bin {alien[0]} is not in the table", wit)
    if got != wantk:
        for (gn, gk), (wn, wk) in zip(got, wantk):
            if (gn, gk) != (wn, wk):
                return run.violate(mon, "group-contents", f"group {gn!r} has bins {gk[:6]}, expected {wn!r} with {wk[:6]}", wit)
        return run.violate(mon, "group-sequence", f"{len(got)} groups yielded, expected {len(wantk)}", wit)
    if snap["ignore_obj"] is not None and list(snap["ignore_obj"]) != snap["ignore_before"]:
        return run.violate(mon, "ignore-list-mutated", f"caller's ignore list became {snap['ignore_obj']}", wit)
    run.held(mon, "by_gene:" + ("multichrom" if len({r['chromosome'] for r in recs}) > 1 else "onechrom") + (":reindexed" if not snap["default_index"] else ""))


# ---------------------------------------------------------------- genemetrics

def pre_genemetrics(run, args, kwargs):
    cna = args[0]
    seg = _arg(args, kwargs, 1, "segments")
    cols, recs = _recs(cna)
    s = None
    if seg is not None and len(seg):
        s = _recs(seg)[1]
    return {"cols": cols, "recs": recs, "segs": s, "x_label": cna.chr_x_label if len(cna) else None,
            "threshold": _arg(args, kwargs, 2, "threshold", 0.2), "min_probes": _arg(args, kwargs, 3, "min_probes", 3),
            "skip_low": bool(_arg(args, kwargs, 4, "skip_low", False)), "male_ref": bool(_arg(args, kwargs, 5, "is_haploid_x_reference", False)),
            "female": _arg(args, kwargs, 6, "is_sample_female"), "par": _arg(args, kwargs, 7, "diploid_parx_genome")}


def _shift(recs, x_label, male_ref, female):
    d = -1.0 if (female and male_ref) else 1.0 if (not female and not male_ref) else 0.0
    if not d:
        return recs
    return [dict(r, log2=r["log2"] + d) if r["chromosome"] == x_label else r for r in recs]


def _gene_row(rows, skip_low, has_w, has_d):
    use = [r for r in rows if not (skip_low and (r["log2"] < LOW or (has_d and r["depth"] == 0)))]
    if not use:
        mean = float("nan")
    elif has_w and any(r["weight"] for r in use):
        mean = G.wmean([r["log2"] for r in use], [r["weight"] for r in use])
    else:
        mean = sum(r["log2"] for r in use) / len(use)
    out = {"chromosome": rows[0]["chromosome"], "start": rows[0]["start"], "end": rows[-1]["end"], "log2": mean, "probes": len(rows)}
    if has_w:
        out["weight"] = sum(r["weight"] for r in rows)
        if has_d:
            sw = out["weight"]
            out["depth"] = sum(r["depth"] * r["weight"] for r in rows) / sw if sw > 0 else None
    elif has_d:
        out["depth"] = sum(r["depth"] for r in rows) / len(rows)
    return out


def post_genemetrics(run, snap, res, args, kwargs):
    mon = "reports.do_genemetrics"
    recs, segs = snap["recs"], snap["segs"]
    if not recs:
        return run.ood(mon, "empty")
    if snap["female"] is None:
        return run.ood(mon, "sex-inferred")     # judged by C15
    if snap["par"] is not None:
        return run.ood(mon, "par-genome")
    keys = [_key(r) for r in recs]
    if len(set(keys)) != len(keys):
        return run.ood(mon, "duplicate-coordinates")
    has_w, has_d = "weight" in snap["cols"], "depth" in snap["cols"]
    if has_w and any(_isnan(r["weight"]) or r["weight"] < 0 for r in recs):
        return run.ood(mon, "bad-weights")
    thr, minp = snap["threshold"], snap["min_probes"]
    sh = _shift(recs, snap["x_label"], snap["male_ref"], bool(snap["female"]))
    want = []
    if segs is None:
        groups, why = G.gene_groups([r["chromosome"] for r in sh], [r["gene"] for r in sh])
        if groups is None:
            return run.ood(mon, why)
        for name, idx in groups:
            if name in G.ALIASES or name == "":
                continue
            row = _gene_row([sh[i] for i in idx], snap["skip_low"], has_w, has_d)
            if has_w and has_d and row.get("depth") is None:
                return run.ood(mon, "gene-with-zero-total-weight")
            if not _isnan(row["log2"]) and abs(row["log2"]) >= thr and (not minp or row["probes"] >= minp):
                want.append(dict(row, gene=name))
    else:
        if minp and minp > 1:
            return run.ood(mon, "min_probes>1-with-segments")
        ssh = _shift(segs, snap["x_label"], snap["male_ref"], bool(snap["female"]))
        srows = [(s["chromosome"], s["start"], s["end"]) for s in ssh]
        if not IV.is_sorted_table(srows) or not IV.is_sorted_table([(r["chromosome"], r["start"], r["end"]) for r in sh]):
            return run.ood(mon, "unsorted")
        for s in ssh:
            if _isnan(s["log2"]) or abs(s["log2"]) < thr:
                continue
            inside = [r for r in sh if r["chromosome"] == s["chromosome"] and r["end"] > s["start"] and r["start"] < s["end"]]
            if not inside:
                continue
            groups, why = G.gene_groups([r["chromosome"] for r in inside], [r["gene"] for r in inside])
            if groups is None:
                return run.ood(mon, why)
            for name, idx in groups:
                if name in G.ALIASES or name == "":
                    continue
                row = _gene_row([inside[i] for i in idx], snap["skip_low"], has_w, has_d)
                if has_w and has_d and row.get("depth") is None:
                    return run.ood(mon, "gene-with-zero-total-weight")
                want.append(dict(row, gene=name, log2=s["log2"]))
    got = res.to_dict("records")
    wit = {"bins": [(r["chromosome"], r["start"], r["end"], r["gene"], r["log2"]) for r in recs][:80],
           "segments": None if segs is None else [(s["chromosome"], s["start"], s["end"], s["log2"]) for s in segs][:40],
           "threshold": thr, "min_probes": minp, "skip_low": snap["skip_low"], "male_ref": snap["male_ref"], "female": snap["female"],
           "reported": [{k: g.get(k) for k in ("gene", "chromosome", "start", "end", "log2", "probes", "weight", "depth")} for g in got][:40],
           "expected": want[:40]}
    gk = [(g["gene"], g["chromosome"], int(g["start"])) for g in got]
    wk = [(w["gene"], w["chromosome"], w["start"]) for w in want]
    mode = "segments" if segs is not None else "genes"
    if sorted(gk) != sorted(wk):
        extra = [k for k in gk if k not in wk]
        missing = [k for k in wk if k not in gk]
        mech = f"genemetrics-{mode}-" + ("spurious-row" if extra else "missing-row")
        return run.violate(mon, mech, f"reported-but-not-expected {extra[:4]}, expected-but-missing {missing[:4]}", wit)
    wd = {(w["gene"], w["chromosome"], w["start"]): w for w in want}
    for g in got:
        w = wd[(g["gene"], g["chromosome"], int(g["start"]))]
        for f in ("end", "probes"):
            if int(g[f]) != w[f]:
                return run.violate(mon, f"genemetrics-{mode}-{f}", f"gene {g['gene']}: {f} {g[f]} != {w[f]}", wit)
        for f in ("log2", "weight", "depth"):
            if f in w and w[f] is not None:
                if abs(float(g[f]) - w[f]) > 1e-9 * max(1.0, abs(w[f])):
                    return run.violate(mon, f"genemetrics-{mode}-{f}", f"gene {g['gene']}: {f} {g[f]} != {w[f]}", wit)
    run.held(mon, f"genemetrics:{mode}" + (":skip_low" if snap["skip_low"] else "") + (":sexshift" if snap["male_ref"] == bool(snap["female"]) else ""))


# --------------------------------------------------------------------- breaks

def pre_breaks(run, args, kwargs):
    return {"recs": _recs(args[0], ["chromosome", "start", "end", "gene"])[1], "segs": _recs(args[1], ["chromosome", "start", "end", "log2"])[1],
            "min_probes": _arg(args, kwargs, 2, "min_probes", 1)}


def post_breaks(run, snap, res, args, kwargs):
    mon = "reports.do_breaks"
    recs, segs, minp = snap["recs"], snap["segs"], snap["min_probes"]
    if not recs or not segs:
        return run.ood(mon, "empty")
    if not IV.is_sorted_table([(s["chromosome"], s["start"], s["end"]) for s in segs]):
        return run.ood(mon, "segments-unsorted")
    ign = set(G.DEFAULT_IGNORE) | set(G.ALIASES)
    genes = {}
    for r in recs:
        if r["gene"] in ign or _isnan(r["gene"]):
            continue
        if "," in r["gene"]:
            return run.ood(mon, "multi-gene-bin")
        genes.setdefault((r["chromosome"], r["gene"]), []).append(r)
    want = set()
    for a, b in zip(segs, segs[1:]):
        if a["chromosome"] != b["chromosome"]:
            continue
        cut = a["end"]
        for (chrom, g), rows in genes.items():
            if chrom != a["chromosome"]:
                continue
            left = sum(1 for r in rows if r["start"] < cut)
            right = sum(1 for r in rows if r["start"] >= cut)
            if left >= max(minp, 1) and right >= max(minp, 1) and cut < max(r["end"] for r in rows):
                want.add((g, chrom, cut, left, right))
    got = {(r["gene"], r["chromosome"], int(r["location"]), int(r["probes_left"]), int(r["probes_right"])) for r in res.to_dict("records")}
    if got != want:
        wit = {"bins": [(r["chromosome"], r["start"], r["end"], r["gene"]) for r in recs][:80], "segments": [(s["chromosome"], s["start"], s["end"]) for s in segs][:40],
               "min_probes": minp, "reported": sorted(got)[:20], "expected": sorted(want)[:20]}
        mech = "breaks-spurious" if got - want else "breaks-missing"
        return run.violate(mon, mech, f"reported-not-expected {sorted(got - want)[:3]}, expected-missing {sorted(want - got)[:3]}", wit)
    run.held(mon, "breaks:" + ("some" if want else "none"))


# --------------------------------------------------------------- squash_genes

def pre_squash(run, args, kwargs):
    return {"recs": _recs(args[0], ["chromosome", "start", "end", "gene"])[1], "squash_anti": bool(_arg(args, kwargs, 2, "squash_antitarget", False)),
            "ignore": tuple(_arg(args, kwargs, 3, "ignore", G.DEFAULT_IGNORE))}


def post_squash(run, snap, res, args, kwargs):
    mon = "CopyNumArray.squash_genes"
    recs = snap["recs"]
    if not recs:
        return run.ood(mon, "empty")
    groups, why = G.gene_groups([r["chromosome"] for r in recs], [r["gene"] for r in recs], snap["ignore"])
    if groups is None:
        return run.ood(mon, why)
    want = []
    for name, idx in groups:
        if name in G.ALIASES and not snap["squash_anti"]:
            want += [(recs[i]["chromosome"], recs[i]["start"], recs[i]["end"], recs[i]["gene"]) for i in idx]
        else:
            want.append((recs[idx[0]]["chromosome"], recs[idx[0]]["start"], recs[idx[-1]]["end"], name if len(idx) > 1 else recs[idx[0]]["gene"]))
    got = [(r["chromosome"], r["start"], r["end"], r["gene"]) for r in _recs(res, ["chromosome", "start", "end", "gene"])[1]]
    if got != want:
        wit = {"bins": [(r["chromosome"], r["start"], r["end"], r["gene"]) for r in recs][:80], "got": got[:40], "expected": want[:40]}
        return run.violate(mon, "squash-genes-rows", f"rows {got[:4]} != one row per gene {want[:4]}", wit)
    run.held(mon, "squash:" + ("anti" if snap["squash_anti"] else "keep-anti"))


def attach_all(run, rt):
    from cnvlib.cnary import CopyNumArray as CNA
    import cnvlib.reports as R
    import cnvlib.commands as K
    traced = [("cnary.by_gene", rt.opt(CNA, "by_gene")), ("gary._get_gene_map", rt.opt(CNA, "_get_gene_map")), ("reports.group_by_genes", rt.opt(R, "group_by_genes")),
              ("reports.gene_metrics_by_gene", rt.opt(R, "gene_metrics_by_gene")), ("reports.gene_metrics_by_segment", rt.opt(R, "gene_metrics_by_segment")),
              ("reports.get_gene_intervals", rt.opt(R, "get_gene_intervals")), ("reports.get_breakpoints", rt.opt(R, "get_breakpoints")),
              ("reports.do_genemetrics", rt.opt(R, "do_genemetrics")), ("cnary.squash_genes", rt.opt(CNA, "squash_genes"))]
    rt.attach(CNA, "by_gene", name="CopyNumArray.by_gene", pre=pre_by_gene, post=post_by_gene, generator=True)
    rt.attach(R, "do_genemetrics", name="reports.do_genemetrics", pre=pre_genemetrics, post=post_genemetrics, also=[(K, "do_genemetrics")])
    rt.attach(R, "do_breaks", name="reports.do_breaks", pre=pre_breaks, post=post_breaks, also=[(K, "do_breaks")])
    rt.attach(CNA, "squash_genes", name="CopyNumArray.squash_genes", pre=pre_squash, post=post_squash)
    return traced
