"""Monitors on cnvlib.segfilters.cn/ci/sem/ampdel (C14) and on the order in
which do_call applies them.  Oracle: a run-length model over plain tuples.
"""
import math

from ..gen import cna_records

Z = 1.96


def _isnan(x):
    return x is None or (isinstance(x, float) and math.isnan(x))


def level_of(filt, rec):
    if filt == "cn":
        return rec["cn"]
    if filt == "ampdel":
        return -1 if rec["cn"] == 0 else 1 if rec["cn"] >= 5 else 0
    if filt == "ci":
        return -1 if rec["ci_hi"] < 0 else 1 if rec["ci_lo"] > 0 else 0
    if filt == "sem":
        m = rec["sem"] * Z
        return -1 if rec["log2"] + m < 0 else 1 if rec["log2"] - m > 0 else 0
    raise KeyError(filt)


def expected_runs(filt, recs, alleles):
    runs = []
    for r in recs:
        key = (r["chromosome"], level_of(filt, r)) + ((r["cn1"], r["cn2"]) if alleles else ())
        if runs and runs[-1]["key"] == key:
            runs[-1]["rows"].append(r)
        else:
            runs.append({"key": key, "rows": [r]})
    out = []
    for run_ in runs:
        rows = run_["rows"]
        w = sum(r["weight"] for r in rows)
        lg = sum(r["log2"] * r["weight"] for r in rows) / w if w > 0 else sum(r["log2"] for r in rows) / len(rows)
        out.append({"chromosome": rows[0]["chromosome"], "start": rows[0]["start"], "end": rows[-1]["end"],
                    "probes": sum(r["probes"] for r in rows) if "probes" in rows[0] else len(rows),
                    "weight": w, "log2": lg, "level": run_["key"][1], "n": len(rows)})
    return out


def make_pre(filt):
    def pre(run, args, kwargs):
        seg = args[0]
        cols = list(seg.data.columns)
        recs = [dict(zip(cols, t)) for t in cna_records(seg, cols)]
        tr = getattr(run._tls, "filter_trace", None)
        if tr is not None:
            tr.append((filt, "cn" in cols))
        return {"cols": cols, "recs": recs, "index_unique": bool(seg.data.index.is_unique)}
    return pre


def make_post(filt):
    need = {"cn": ["cn"], "ampdel": ["cn"], "ci": ["ci_lo", "ci_hi"], "sem": ["sem"]}[filt]

    def post(run, snap, res, args, kwargs):
        mon = f"segfilters.{filt}"
        cols, recs = snap["cols"], snap["recs"]
        if not recs:
            return run.ood(mon, "empty")
        if any(c not in cols for c in need + ["weight", "gene", "log2"]) or not snap["index_unique"]:
            return run.ood(mon, "missing-column-or-duplicate-index")
        # chromosomes contiguous
        seen, prev = set(), None
        for r in recs:
            if r["chromosome"] != prev:
                if r["chromosome"] in seen:
                    return run.ood(mon, "chromosome-not-contiguous")
                seen.add(r["chromosome"])
                prev = r["chromosome"]
        if any(_isnan(r[c]) for r in recs for c in need) or any(_isnan(r["weight"]) or _isnan(r["log2"]) or r["weight"] < 0 for r in recs):
            return run.ood(mon, "nan-in-level-or-weight")
        alleles = "cn1" in cols and "cn2" in cols
        nan_alleles = alleles and any(_isnan(r["cn1"]) or _isnan(r["cn2"]) for r in recs)
        ocols = list(res.data.columns)
        got = [dict(zip(ocols, t)) for t in cna_records(res, ocols)]
        wit = {"filter": filt, "input": [{k: r[k] for k in ("chromosome", "start", "end", "log2", "weight") + tuple(need) + (("cn1", "cn2") if alleles else ()) + (("probes",) if "probes" in cols else ())} for r in recs][:60],
               "output": [{k: g.get(k) for k in ("chromosome", "start", "end", "log2", "probes", "weight", "cn")} for g in got][:60]}
        # conservation (before ampdel's final selection this is checked through the expected runs)
        if not nan_alleles:
            want = expected_runs(filt, recs, alleles)
            if filt == "ampdel":
                want = [w for w in want if w["level"] != 0]
            if len(got) != len(want):
                return run.violate(mon, f"{filt}-run-count", f"{len(got)} output segments, run-length model gives {len(want)}", wit)
            for g, w in zip(got, want):
                if (g["chromosome"], g["start"], g["end"]) != (w["chromosome"], w["start"], w["end"]):
                    return run.violate(mon, f"{filt}-span", f"segment {g['chromosome']}:{g['start']}-{g['end']} but run spans {w['chromosome']}:{w['start']}-{w['end']}", wit)
                if g["probes"] != w["probes"]:
                    return run.violate(mon, f"{filt}-probes", f"{g['chromosome']}:{g['start']}: probes {g['probes']} != sum {w['probes']}", wit)
                if abs(g["weight"] - w["weight"]) > 1e-9 * max(1, abs(w["weight"])):
                    return run.violate(mon, f"{filt}-weight", f"{g['chromosome']}:{g['start']}: weight {g['weight']} != sum {w['weight']}", wit)
                if abs(g["log2"] - w["log2"]) > 1e-9 * max(1, abs(w["log2"])):
                    return run.violate(mon, f"{filt}-log2", f"{g['chromosome']}:{g['start']}: log2 {g['log2']} != weighted mean {w['log2']}", wit)
        if nan_alleles and filt != "ampdel":
            # Missing allele-specific cn: two neighbours with the same level whose allele-specific cn is missing in
            # both share the level (nothing distinguishes them) and must merge; neighbours that differ in the filter's
            # level, or in known allele-specific cn, must not; missing next to known is left open.
            owner = {}
            for j, g in enumerate(got):
                for r in recs:
                    if r["chromosome"] == g["chromosome"] and g["start"] <= r["start"] and r["end"] <= g["end"]:
                        owner.setdefault((r["chromosome"], r["start"], r["end"]), j)
            for a, b in zip(recs, recs[1:]):
                if a["chromosome"] != b["chromosome"]:
                    continue
                ja, jb = owner.get((a["chromosome"], a["start"], a["end"])), owner.get((b["chromosome"], b["start"], b["end"]))
                if ja is None or jb is None:
                    continue
                same_level = level_of(filt, a) == level_of(filt, b)
                na, nb = _isnan(a["cn1"]) or _isnan(a["cn2"]), _isnan(b["cn1"]) or _isnan(b["cn2"])
                if same_level and na and nb and ja != jb:
                    return run.violate(mon, f"{filt}-run-not-maximal-missing-alleles", f"{a['chromosome']}:{a['start']} and :{b['start']} share the level and both lack allele-specific cn but were not merged", wit)
                if ja == jb and (not same_level or (not na and not nb and (a["cn1"], a["cn2"]) != (b["cn1"], b["cn2"]))):
                    return run.violate(mon, f"{filt}-merged-across-level-change", f"{a['chromosome']}:{a['start']} and :{b['start']} differ in level but were merged", wit)
        # universal conservation clauses (also with missing allele-specific cn)
        if filt != "ampdel":
            tp_in = sum(r["probes"] for r in recs) if "probes" in cols else len(recs)
            tp_out = sum(g["probes"] for g in got)
            if tp_in != tp_out:
                return run.violate(mon, f"{filt}-total-probes", f"total probes {tp_in} -> {tp_out}", wit)
            tw_in, tw_out = sum(r["weight"] for r in recs), sum(g["weight"] for g in got)
            if abs(tw_in - tw_out) > 1e-9 * max(1, tw_in):
                return run.violate(mon, f"{filt}-total-weight", f"total weight {tw_in} -> {tw_out}", wit)
            span_in, span_out = {}, {}
            for r in recs:
                a = span_in.setdefault(r["chromosome"], [r["start"], r["end"]])
                a[0], a[1] = min(a[0], r["start"]), max(a[1], r["end"])
            for g in got:
                a = span_out.setdefault(g["chromosome"], [g["start"], g["end"]])
                a[0], a[1] = min(a[0], g["start"]), max(a[1], g["end"])
            if span_in != span_out:
                return run.violate(mon, f"{filt}-chromosome-span", f"covered span per chromosome {span_in} -> {span_out}", wit)
        run.held(mon, f"{filt}:{'alleles' if alleles else 'plain'}" + (":nan-alleles" if nan_alleles else "") + (":probes" if "probes" in cols else ""))
    return post


def make_exc(filt):
    def on_exc(run, snap, exc, args, kwargs):
        mon = f"segfilters.{filt}"
        if snap is None or not snap["recs"]:
            return
        if isinstance(exc, ValueError) and "requires column" in str(exc):
            return run.ood(mon, "required-column-missing")
        need = {"cn": ["cn"], "ampdel": ["cn"], "ci": ["ci_lo", "ci_hi"], "sem": ["sem"]}[filt]
        if any(c not in snap["cols"] for c in need + ["weight", "gene", "log2"]) or not snap["index_unique"]:
            return run.ood(mon, "missing-column-or-duplicate-index")
        if any(_isnan(r[c]) for r in snap["recs"] for c in need + ["weight", "log2"]):
            return run.ood(mon, "nan-in-level-or-weight")
        run.violate(mon, f"{filt}-raises-{type(exc).__name__}", f"raised {exc!r}", {"filter": filt, "input": snap["recs"][:40]})
    return on_exc


# ---- do_call: order of filter application

def pre_call_order(run, args, kwargs):
    filters = args[8] if len(args) > 8 else kwargs.get("filters")
    run._tls.filter_trace = []
    return {"filters": list(filters) if filters else [], "had_cn": "cn" in args[0],
            "method": args[2] if len(args) > 2 else kwargs.get("method", "threshold")}


def post_call_order(run, snap, res, args, kwargs):
    mon = "call.do_call[filter-order]"
    trace = getattr(run._tls, "filter_trace", None) or []
    run._tls.filter_trace = None
    flt = snap["filters"]
    if not flt:
        return
    if len(set(flt)) != len(flt) or ("ci" in flt and "sem" in flt):
        return run.ood(mon, "repeated-or-ci+sem")
    first = [f for f in ("ci", "sem") if f in flt]
    want = first + [f for f in flt if f not in ("ci", "sem")]
    got = [f for f, _ in trace]
    wit = {"filters": flt, "applied": trace, "method": snap["method"]}
    if got != want:
        return run.violate(mon, "filter-order", f"filters {flt}: applied {got}, expected {want}", wit)
    if not snap["had_cn"]:
        for f, saw_cn in trace:
            if f in ("ci", "sem") and saw_cn:
                return run.violate(mon, "ci-sem-after-calling", f"{f} ran on a table that already had cn", wit)
            if f in ("cn", "ampdel") and not saw_cn:
                return run.violate(mon, "cn-filter-before-calling", f"{f} ran before cn was assigned", wit)
    run.held(mon, "order:" + "+".join(flt))


def exc_call_order(run, snap, exc, args, kwargs):
    run._tls.filter_trace = None


def attach_all(run, rt):
    import cnvlib.segfilters as F
    import cnvlib.call as C
    traced = [("segfilters.squash_by_groups", rt.opt(F, "squash_by_groups")), ("segfilters.squash_region", rt.opt(F, "squash_region")),
              ("segfilters.enumerate_changes", rt.opt(F, "enumerate_changes"))]
    for filt in ("cn", "ci", "sem", "ampdel"):
        traced.append((f"segfilters.{filt}", getattr(F, filt)))
        rt.attach(F, filt, name=f"segfilters.{filt}", pre=make_pre(filt), post=make_post(filt), on_exc=make_exc(filt))
    rt.attach(C, "do_call", name="call.do_call[filter-order]", pre=pre_call_order, post=post_call_order, on_exc=exc_call_order)
    return traced
