"""Command-line plumbing monitors.

The per-function monitors judge a call whoever makes it; what they cannot see
is whether the sub-command handed the *right* arguments to the function and
wrote the table it got back.  These helpers run a sub-command in-process
(`commands.parse_args(argv).func(args)`) with a recorder stacked on the
function it must reach, and check three things:

  1. the arguments the function received are the ones the command line asked
     for (after the documented transformations, e.g. --center-at),
  2. the function was reached exactly once,
  3. the output file holds the table the function returned (coordinates and
     integers exactly, floats to the 6 significant digits of the writer).

Correctness of the function on those arguments is the business of the other
monitors, which stay attached and see the same call.
"""
import csv
import os

import numpy as np


def read_tsv(path):
    with open(path) as fh:
        return list(csv.DictReader(fh, delimiter="\t"))


def file_matches_table(rows, df, int_cols=("start", "end"), float_cols=("log2",), str_cols=("chromosome",), opt_int=("cn", "probes", "cn1", "cn2")):
    """None if the TSV rows state the table; else a message."""
    if len(rows) != len(df):
        return f"{len(rows)} rows in the file, {len(df)} in the returned table"
    for k, (r, (_i, t)) in enumerate(zip(rows, df.iterrows())):
        for c in str_cols:
            if c in df.columns and r.get(c) != str(t[c]):
                return f"row {k}: {c} {r.get(c)!r} != {t[c]!r}"
        for c in int_cols:
            if c in df.columns and int(float(r[c])) != int(t[c]):
                return f"row {k}: {c} {r[c]} != {t[c]}"
        for c in opt_int:
            if c in df.columns:
                v = t[c]
                if v is None or (isinstance(v, float) and v != v):
                    if r.get(c, "") not in ("", "nan", "NaN"):
                        return f"row {k}: {c} {r.get(c)!r} for a missing value"
                elif r.get(c, "") == "" or abs(float(r[c]) - float(v)) > 1e-5 * abs(float(v)) + 1e-12:
                    return f"row {k}: {c} {r.get(c)!r} != {v}"
        for c in float_cols:
            if c in df.columns:
                v = float(t[c])
                if v != v:
                    continue
                if abs(float(r[c]) - v) > 1e-5 * abs(v) + 1e-12:
                    return f"row {k}: {c} {r[c]} != {v}"
    return None


def run_subcommand(run, rt, owner, attr, argv):
    """Run argv in-process with a recorder on owner.attr.  Returns
    {"calls": [(args, kwargs, result-or-exception)], "raised": exc-or-None}."""
    from cnvlib import commands
    seen = []

    def pre(run_, args, kwargs):
        return (args, kwargs)

    def post(run_, snap, res, args, kwargs):
        seen.append((snap[0], snap[1], res))

    def on_exc(run_, snap, exc, args, kwargs):
        seen.append((snap[0] if snap else args, snap[1] if snap else kwargs, exc))

    w = rt.attach(owner, attr, name=f"cli[{argv[0]}]:recorder", pre=pre, post=post, on_exc=on_exc)
    raised = None
    try:
        a = commands.parse_args(argv)
        a.func(a)
    except SystemExit as exc:
        raised = exc
    except Exception as exc:
        raised = exc
    finally:
        setattr(owner, attr, w.__vmon_orig__)
        rt._ATTACHED[:] = [t for t in rt._ATTACHED if not (t[0] is owner and t[1] == attr and t[2] is w.__vmon_orig__)]
    return {"calls": seen, "raised": raised}


def check_call_cli(run, rt, infile, outfile, argv, expect, in_log2):
    """`cnvkit.py call`: plumbing + file.  expect: method, ploidy, purity,
    male_ref, female (None when the command must not pass a sample sex),
    par, filters, thresholds, center_at."""
    import cnvlib.call as C
    mon = "cli.call[plumbing]"
    out = run_subcommand(run, rt, C, "do_call", argv)
    wit = {"argv": argv[1:], "expected": {k: v for k, v in expect.items()}}
    if out["raised"] is not None and not out["calls"]:
        return run.violate(mon, f"call-cli-raises-{type(out['raised']).__name__}", f"{out['raised']!r}", wit)
    if len(out["calls"]) != 1:
        return run.violate(mon, "call-cli-function-not-reached-once", f"do_call was reached {len(out['calls'])} times", wit)
    args, kwargs, res = out["calls"][0]
    names = ["cnarr", "variants", "method", "ploidy", "purity", "is_haploid_x_reference", "is_sample_female", "diploid_parx_genome", "filters", "thresholds"]
    got = dict(zip(names, args))
    got.update(kwargs)
    wit["received"] = {k: (v if not hasattr(v, "data") else "<table>") for k, v in got.items()}
    checks = [("method", got.get("method", "threshold"), expect["method"]), ("ploidy", got.get("ploidy", 2), expect["ploidy"]),
              ("purity", got.get("purity"), expect["purity"]), ("reference sex", bool(got.get("is_haploid_x_reference", False)), bool(expect["male_ref"])),
              ("PAR genome", got.get("diploid_parx_genome"), expect["par"]), ("filters", list(got.get("filters") or []), list(expect["filters"] or []))]
    # the sample's sex is read by do_call only when it rescales for purity; elsewhere whatever the command passes is immaterial
    if expect["female"] is not None and expect["purity"] and expect["purity"] < 1.0:
        checks.append(("sample sex", bool(got.get("is_sample_female")), bool(expect["female"])))
    if expect.get("thresholds") is not None:
        checks.append(("thresholds", [float(x) for x in got.get("thresholds", ())], [float(x) for x in expect["thresholds"]]))
    for what, a, b in checks:
        ok = (a == b) if not isinstance(b, float) or a is None else abs(float(a) - b) <= 1e-12
        if not ok:
            return run.violate(mon, f"call-cli-passes-wrong-{what.replace(' ', '-')}", f"{what}: the command line asks for {b!r}, do_call received {a!r}", wit)
    cn_in = got["cnarr"].data["log2"].to_numpy(float)
    want_in = np.asarray(in_log2, float) - (expect.get("center_at") or 0.0)
    if len(cn_in) != len(want_in) or np.nanmax(np.abs(cn_in - want_in)) > 1e-5 * max(1.0, np.nanmax(np.abs(want_in))):
        return run.violate(mon, "call-cli-input-log2", "the table handed to do_call is not the file's log2 (minus --center-at)", wit)
    if isinstance(res, Exception):
        return run.ood(mon, "do_call-raised")
    if not os.path.exists(outfile):
        return run.violate(mon, "call-cli-no-output", "no output file was written", wit)
    msg = file_matches_table(read_tsv(outfile), res.data)
    if msg:
        return run.violate(mon, "call-cli-file-differs-from-result", msg, wit)
    run.held(mon, f"cli-call:{expect['method']}" + (":purity" if expect["purity"] else "") + (":filters" if expect["filters"] else "") + (":center-at" if expect.get("center_at") else ""))


# ------------------------------------------------------------ generic plumbing

def _norm(v):
    if isinstance(v, (list, tuple)):
        return [_norm(x) for x in v]
    if isinstance(v, (np.floating, float)):
        return float(v)
    if isinstance(v, (np.integer,)):
        return int(v)
    if isinstance(v, np.bool_):
        return bool(v)
    return v


def check_cli(run, rt, owner, attr, argv, expect, label, truthy=()):
    """Run `argv`, require exactly one call of owner.attr, and compare the named
    arguments it received with `expect` ({parameter name: value}); parameters
    listed in `truthy` are compared by truth value.  Returns (bound arguments,
    result) or None after recording a violation / out-of-domain verdict."""
    import inspect
    mon = f"cli.{label}[plumbing]"
    target = rt.original(getattr(owner, attr))
    out = run_subcommand(run, rt, owner, attr, argv)
    wit = {"argv": [a if len(str(a)) < 200 else str(a)[:200] for a in argv], "expected": {k: _norm(v) for k, v in expect.items()}}
    if out["raised"] is not None and not out["calls"]:
        run.violate(mon, f"{label}-cli-raises-{type(out['raised']).__name__}", f"{out['raised']!r}", wit)
        return None
    if len(out["calls"]) != 1:
        run.violate(mon, f"{label}-cli-function-not-reached-once", f"{attr} was reached {len(out['calls'])} times", wit)
        return None
    args, kwargs, res = out["calls"][0]
    try:
        ba = inspect.signature(target).bind(*args, **kwargs)
        ba.apply_defaults()
        got = dict(ba.arguments)
    except TypeError as exc:
        run.violate(mon, f"{label}-cli-bad-call", f"arguments do not fit the function: {exc}", wit)
        return None
    wit["received"] = {k: (_norm(v) if not hasattr(v, "data") else "<table>") for k, v in got.items() if k in expect}
    for name, want in expect.items():
        have = got.get(name)
        if name in truthy:
            ok = bool(have) == bool(want)
        elif isinstance(want, float) and have is not None and not isinstance(have, (list, tuple, str)):
            ok = abs(float(have) - want) <= 1e-12 * max(1.0, abs(want))
        else:
            ok = _norm(have) == _norm(want)
        if not ok:
            run.violate(mon, f"{label}-cli-passes-wrong-{name}", f"{name}: the command line asks for {_norm(want)!r}, {attr} received {_norm(have)!r}", wit)
            return None
    return got, res, wit


def held(run, label, cls):
    run.held(f"cli.{label}[plumbing]", cls)


SEX_SPELLINGS = {True: ("f", "x", "female", "Female"), False: ("m", "y", "male", "Male")}


def sex_arg(female, k):
    """One of the spellings the parsers accept for --sample-sex (cycled by k)."""
    v = SEX_SPELLINGS[bool(female)]
    return v[k % len(v)]
