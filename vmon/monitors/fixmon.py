"""Monitors on cnvlib.fix (C04).

* fix.match_ref_to_sample  — the aligned reference is checked row by row against
  a dictionary keyed by (chromosome, start, end); refusals are asserted.
* fix.center_by_window     — result == input - rolling median (mirrored edges,
  half-window from the *observed* fraction) over the bins in covariate order;
  the call is also appended to a per-do_fix chain.
* fix.get_edge_bias        — independent per-bin loop of the docstring formula.
* fix.do_fix               — which bins come out and in which order; the chain
  of corrections (which covariate, aligned to which bin, fed with what);
  out = corrected sample - reference + one constant per class; centring;
  weights (range, monotone in size / spread); metamorphic re-invocation
  (depth rescaling, row permutation of every input) on deep copies.
"""
import math

import numpy as np
import pandas as pd

INSERT = 250
AVAILABLE = {"cbw": True}      # False when the hooked internal is gone (refactoring): the chain clauses are then not decidable
ANTI = ("Antitarget", "Background")
LOW = -15.0


def _key(df):
    return list(zip((str(c) for c in df["chromosome"].tolist()), (int(x) for x in df["start"].tolist()), (int(x) for x in df["end"].tolist())))


def chrom_key(c):
    c = c[3:] if c.lower().startswith("chr") else c
    if c.isdigit():
        return (int(c), "")
    if c in ("X", "Y"):
        return (1000, c)
    return None


def is_auto(c):
    c = c[3:] if c.startswith("chr") else c
    return c.isdigit()


def model_wing(fraction, n):
    if 0 < fraction < 1:
        wing = int(math.ceil(n * fraction * 0.5))
    elif fraction >= 2 and int(fraction) == fraction:
        wing = int(min(fraction, n - 1) // 2)
    else:
        return None
    return min(max(wing, 3), n - 1)


def model_rolling_median(x, wing):
    x = np.asarray(x, float)
    n = len(x)
    if n < 2:
        return x.copy()
    padded = np.concatenate([x[:wing][::-1], x, x[n - wing:][::-1]])
    out = np.empty(n)
    for i in range(n):
        out[i] = np.median(padded[i:i + 2 * wing + 1])
    return out


def model_edge(starts, ends, chroms, insert=INSERT):
    """gains - losses per bin; neighbours are the adjacent rows on the same chromosome."""
    n = len(starts)
    out = [0.0] * n
    i = float(insert)
    for k in range(n):
        t = float(ends[k] - starts[k])
        loss = i / (2 * t)
        if t < i:
            loss -= (i - t) ** 2 / (2 * i * t)
        gain = 0.0
        for nb in (k - 1, k + 1):
            if 0 <= nb < n and chroms[nb] == chroms[k]:
                g = (starts[k] - ends[nb]) if nb < k else (starts[nb] - ends[k])
                if g < i:
                    g = max(0.0, float(g))
                    gg = (i - g) ** 2 / (4 * i * t)
                    if t + g < i:
                        gg -= (i - t - g) ** 2 / (4 * i * t)
                    gain += gg
        out[k] = gain - loss
    return out


# ------------------------------------------------------- match_ref_to_sample

def pre_match(run, args, kwargs):
    ref, samp = args[0], args[1]
    return {"ref_keys": _key(ref.data), "samp_keys": _key(samp.data), "ref": ref.data.copy(), "samp_index": list(samp.data.index)}


def post_match(run, snap, res, args, kwargs):
    mon = "fix.match_ref_to_sample"
    rk, sk = snap["ref_keys"], snap["samp_keys"]
    wit = {"sample_bins": sk[:40], "reference_bins": rk[:40]}
    if len(set(rk)) != len(rk) or len(set(sk)) != len(sk):
        return run.violate(mon, "duplicate-coordinates-not-refused", "duplicated coordinates were accepted", wit)
    pos = {k: i for i, k in enumerate(rk)}
    if any(k not in pos for k in sk):
        return run.violate(mon, "missing-reference-bin-not-refused", "a sample bin that is absent from the reference was accepted", wit)
    got = _key(res.data)
    if got != sk:
        return run.violate(mon, "aligned-reference-has-other-coordinates", f"row coordinates differ from the sample's (first: {next((a, b) for a, b in zip(got, sk) if a != b) if len(got) == len(sk) else (len(got), len(sk))})", wit)
    if list(res.data.index) != snap["samp_index"]:
        return run.violate(mon, "aligned-reference-index-differs", "row labels differ from the sample's", wit)
    ref = snap["ref"]
    take = [pos[k] for k in sk]
    for col in ref.columns:
        if col in ("chromosome", "start", "end"):
            continue
        a = ref[col].values[take]
        b = res.data[col].values
        if a.dtype.kind in "fiu" and b.dtype.kind in "fiu":
            ok = np.array_equal(np.asarray(a, float), np.asarray(b, float), equal_nan=True)
        else:
            ok = list(a) == list(b)
        if not ok:
            return run.violate(mon, "aligned-reference-values-from-other-bin", f"column {col}: values are not those of the reference bin with the same coordinates", wit)
    moved = take != list(range(len(take)))
    run.held(mon, "match:" + ("reordered-or-subset" if moved or len(rk) != len(sk) else "identity"))


def exc_match(run, snap, exc, args, kwargs):
    mon = "fix.match_ref_to_sample"
    if snap is None:
        return
    rk, sk = snap["ref_keys"], snap["samp_keys"]
    dup = len(set(rk)) != len(rk) or len(set(sk)) != len(sk)
    missing = any(k not in set(rk) for k in sk)
    if isinstance(exc, ValueError) and (dup or missing):
        return run.held(mon, "refusal:" + ("duplicate" if dup else "missing"))
    run.violate(mon, f"match-raises-{type(exc).__name__}", f"raised {exc!r} on well-formed tables", {"sample_bins": sk[:40], "reference_bins": rk[:40]})


# ------------------------------------------------------------ center_by_window

def pre_cbw(run, args, kwargs):
    cnarr, fraction, sort_key = args[0], args[1], args[2]
    sk = sort_key.values if isinstance(sort_key, pd.Series) else np.asarray(sort_key)
    return {"keys": _key(cnarr.data), "log2": cnarr.data["log2"].values.astype(float).copy(), "fraction": float(fraction),
            "cov": np.asarray(sk, float).copy(), "cols": list(cnarr.data.columns)}


def post_cbw(run, snap, res, args, kwargs):
    mon = "fix.center_by_window"
    keys, x, cov, frac = snap["keys"], snap["log2"], snap["cov"], snap["fraction"]
    n = len(keys)
    got_keys = _key(res.data)
    got = dict(zip(got_keys, res.data["log2"].values.astype(float)))
    chain = getattr(run._tls, "fix_chain", None)
    if chain is not None:
        run.extra["center_by_window-calls-inside-do_fix"] += 1
        chain.append({"keys": keys, "in": dict(zip(keys, x)), "out": got, "cov": dict(zip(keys, cov)), "fraction": frac})
    wit = {"fraction": frac, "bins": keys[:60], "log2": x[:60], "covariate": cov[:60]}
    if len(cov) != n:
        return run.ood(mon, "covariate-length-differs")
    if sorted(got_keys) != sorted(keys) or len(set(keys)) != n:
        return run.violate(mon, "rows-lost-or-duplicated", f"{n} rows in, {len(got_keys)} out", wit)
    ck = [chrom_key(k[0]) for k in got_keys]
    if None not in ck and [(c, k[1], k[2]) for c, k in zip(ck, got_keys)] != sorted((c, k[1], k[2]) for c, k in zip(ck, got_keys)):
        return run.violate(mon, "result-not-in-genomic-order", "rows are not back in genomic order", wit)
    if n < 2:
        return run.ood(mon, "fewer-than-2-bins")
    if np.isnan(cov).any() or np.isnan(x).any():
        return run.ood(mon, "nan-in-covariate-or-log2")
    if len(np.unique(cov)) != n:
        return run.ood(mon, "ties-in-covariate")
    wing = model_wing(frac, n)
    if wing is None:
        return run.ood(mon, "fraction-outside-documented-forms")
    order = np.argsort(cov, kind="mergesort")
    xs = x[order]
    want = xs - model_rolling_median(xs, wing)
    for j, i in enumerate(order):
        g = got[keys[i]]
        if not abs(g - want[j]) <= 1e-9 * max(1.0, abs(want[j])):
            wit.update(expected={str(keys[i]): float(want[j])}, observed={str(keys[i]): float(g)}, wing=wing)
            return run.violate(mon, "not-rolling-median-in-covariate-order", f"bin {keys[i]}: {g} but log2 - rolling median (half-window {wing}) over covariate order gives {want[j]}", wit)
    run.held(mon, f"cbw:n<{10 ** len(str(n))}")


# --------------------------------------------------------------- get_edge_bias

def pre_edge(run, args, kwargs):
    cn = args[0]
    return {"keys": _key(cn.data), "margin": args[1] if len(args) > 1 else kwargs.get("margin")}


def post_edge(run, snap, res, args, kwargs):
    mon = "fix.get_edge_bias"
    keys = snap["keys"]
    if not keys:
        return run.ood(mon, "empty")
    for a, b in zip(keys, keys[1:]):
        if a[0] == b[0] and (b[1], b[2]) < (a[1], a[2]):
            return run.ood(mon, "rows-not-in-genomic-order")
    seen, prev = set(), None
    for k in keys:
        if k[0] != prev:
            if k[0] in seen:
                return run.ood(mon, "chromosome-not-contiguous")
            seen.add(k[0])
            prev = k[0]
    if any(k[2] <= k[1] for k in keys):
        return run.ood(mon, "non-positive-bin")
    want = model_edge([k[1] for k in keys], [k[2] for k in keys], [k[0] for k in keys], snap["margin"])
    got = np.asarray(res, float)
    if len(got) != len(want):
        return run.violate(mon, "edge-length", f"{len(got)} values for {len(want)} bins", {"bins": keys[:40]})
    for k, g, w in zip(keys, got, want):
        if not abs(g - w) <= 1e-9 * max(1.0, abs(w)):
            return run.violate(mon, "edge-formula", f"bin {k}: {g} but the formula gives {w}", {"bins": keys[:60], "observed": got[:60], "expected": want[:60]})
    run.held(mon, "edge")


# ----------------------------------------------------------------------- do_fix

def _fix_args(args, kwargs):
    names = ["target_raw", "antitarget_raw", "reference", "diploid_parx_genome", "do_gc", "do_edge", "do_rmask", "do_cluster", "smoothing_window_fraction"]
    d = {"diploid_parx_genome": None, "do_gc": True, "do_edge": True, "do_rmask": True, "do_cluster": False, "smoothing_window_fraction": None}
    d.update(dict(zip(names, args)))
    d.update(kwargs)
    return d


def pre_fix(run, args, kwargs):
    a = _fix_args(args, kwargs)
    run._tls.fix_chain = []
    return {"tgt": a["target_raw"].data.copy(), "anti": a["antitarget_raw"].data.copy(), "ref": a["reference"].data.copy(),
            "opts": {k: a[k] for k in ("do_gc", "do_edge", "do_rmask", "do_cluster", "diploid_parx_genome", "smoothing_window_fraction")},
            "objs": (a["target_raw"], a["antitarget_raw"], a["reference"])}


def ref_passes(ref_row_dict, has_depth, has_gc):
    r = ref_row_dict
    if r["log2"] < -5.0 or r["log2"] > 5.0:
        return False
    if r["spread"] > 1.0:
        return False
    if has_depth and r["depth"] == 0:
        return False
    if has_gc and (r["gc"] > 0.7 or r["gc"] < 0.3):
        return False
    return True


def _classify(snap):
    """(problem, info): problem is None for in-domain inputs, 'refusal:...' when
    the statement promises an error, or an out-of-domain reason."""
    tgt, anti, ref = snap["tgt"], snap["anti"], snap["ref"]
    rk = _key(ref)
    tk, ak = _key(tgt), _key(anti)
    if len(set(rk)) != len(rk) or len(set(tk)) != len(tk) or len(set(ak)) != len(ak):
        return "refusal:duplicate", None
    rs = set(rk)
    if any(k not in rs for k in tk) or any(k not in rs for k in ak):
        return "refusal:missing", None
    if set(tk) & set(ak):
        return "ood:bin-in-both-tables", None
    if any(chrom_key(c) is None for c in set(k[0] for k in rk)):
        return "ood:non-canonical-chromosome", None
    for need, df in ((("log2", "spread"), ref), (("log2", "depth", "gene"), tgt)):
        if any(c not in df.columns for c in need):
            return "ood:missing-column", None
    if len(anti) and any(c not in anti.columns for c in ("log2", "depth", "gene")):
        return "ood:missing-column", None
    if not len(tgt):
        return "ood:no-target-bins", None
    if ref[["log2", "spread"]].isna().any().any() or tgt["log2"].isna().any() or (len(anti) and anti["log2"].isna().any()):
        return "ood:nan", None
    if snap["opts"]["do_cluster"]:
        return "ood:cluster", None
    return None, (rk, tk, ak)


def post_fix(run, snap, res, args, kwargs):
    mon = "fix.do_fix"
    chain = getattr(run._tls, "fix_chain", None) or []
    run._tls.fix_chain = None
    prob, info = _classify(snap)
    tgt, anti, ref, opts = snap["tgt"], snap["anti"], snap["ref"], snap["opts"]
    wit = {"options": opts, "n_target": len(tgt), "n_antitarget": len(anti), "n_reference": len(ref),
           "reference_columns": list(ref.columns), "target_head": tgt.head(30), "antitarget_head": anti.head(15), "reference_head": ref.head(40)}
    if prob and prob.startswith("refusal"):
        return run.violate(mon, "no-" + prob.replace(":", "-"), f"do_fix returned a table although the input has a {prob.split(':')[1]} bin", wit)
    if prob:
        return run.ood(mon, prob[4:])
    rk, tk, ak = info
    has_depth, has_gc, has_rmask = "depth" in ref.columns, "gc" in ref.columns, "rmask" in ref.columns
    rrows = {k: r for k, r in zip(rk, ref.to_dict("records"))}
    out = res.data
    ok_ = _key(out)
    # ---- A. which bins, in which order
    classes = {"target": [k for k in tk if ref_passes(rrows[k], has_depth, has_gc)],
               "antitarget": [k for k in ak if ref_passes(rrows[k], has_depth, has_gc)]}
    want_set = set(classes["target"]) | set(classes["antitarget"])
    if set(ok_) != want_set or len(ok_) != len(want_set):
        extra = [k for k in ok_ if k not in want_set][:3]
        lost = [k for k in want_set if k not in set(ok_)][:3]
        why = ""
        if extra:
            r = rrows[extra[0]]
            why = f"; e.g. kept {extra[0]} whose reference bin has log2={r['log2']}, spread={r['spread']}, depth={r.get('depth')}, gc={r.get('gc')}"
        if lost:
            r = rrows[lost[0]]
            why += f"; e.g. dropped {lost[0]} whose reference bin has log2={r['log2']}, spread={r['spread']}, depth={r.get('depth')}, gc={r.get('gc')}"
        return run.violate(mon, "wrong-bins-emitted", f"{len(ok_)} bins out, {len(want_set)} sample bins have a passing reference bin" + why, wit)
    order = [(chrom_key(k[0]), k[1], k[2]) for k in ok_]
    if order != sorted(order):
        return run.violate(mon, "output-not-in-genomic-order", "rows are not sorted by chromosome, start, end", wit)
    if not ok_:
        return run.ood(mon, "no-bin-passes")
    olog = dict(zip(ok_, out["log2"].values.astype(float)))
    slog = dict(zip(tk, tgt["log2"].values.astype(float)))
    slog.update(zip(ak, anti["log2"].values.astype(float)) if len(anti) else [])
    sdepth = dict(zip(tk, tgt["depth"].values.astype(float)))
    sdepth.update(zip(ak, anti["depth"].values.astype(float)) if len(anti) else [])
    # ---- B. the chain of corrections per class
    cls_of = {k: "target" for k in classes["target"]}
    cls_of.update({k: "antitarget" for k in classes["antitarget"]})
    last = {}
    verdict_cls = []
    for cname in ("target", "antitarget"):
        keys = classes[cname]
        if not keys:
            continue
        expect = []
        if opts["do_gc"] and has_gc:
            expect.append("gc")
        if opts["do_edge"] and cname == "target":
            expect.append("edge")
        if opts["do_rmask"] and cname == "antitarget" and has_rmask:
            expect.append("rmask")
        evs = [e for e in chain if e["keys"] and cls_of.get(e["keys"][0]) == cname]
        if not AVAILABLE["cbw"]:
            # no view of the individual corrections: clause C is only decidable for a class without any enabled correction
            last[cname] = None if not expect else "undecidable"
            verdict_cls.append(f"{cname}:" + ("none" if not expect else "chain-not-observable"))
            continue
        # documented escape: corrections are skipped when most bins have no coverage
        n_cov = sum(1 for k in keys if slog[k] > -10)
        if len(keys) < 2:
            verdict_cls.append(f"{cname}:single-bin")
            last[cname] = None
            if evs:
                last[cname] = evs[-1]["out"]
            continue
        if n_cov <= len(keys) // 2 + 1 and n_cov >= len(keys) // 2 - 1:
            return run.ood(mon, "about-half-the-bins-uncovered")
        if n_cov <= len(keys) // 2 and not evs:
            # documented escape: "skip bias corrections if most bins have no coverage".  Whether it triggers depends on the
            # class's centring (antitargets are centred with their uncovered bins, which lifts them above the cut-off), so
            # both outcomes are accepted here: no correction at all, or the full chain as asked.
            expect = []
        if len(evs) != len(expect):
            if not chain and expect:
                # not one correction was seen during this call.  Either the corrections were skipped (a violation), or this tree no
                # longer routes them through center_by_window at all (a refactoring): the shard decides at its end -- a tree on
                # which the hook is on the path shows it in the other calls
                run.__dict__.setdefault("_fix_deferred", []).append((f"{cname}: no rolling-median correction ran, options/columns ask for {expect}", wit))
                last[cname] = "undecidable"
                verdict_cls.append(f"{cname}:chain-not-observable")
                continue
            return run.violate(mon, "wrong-set-of-corrections", f"{cname}: {len(evs)} rolling-median corrections ran, options/columns ask for {expect}", wit)
        prev = None
        sk = sorted(keys, key=lambda k: (chrom_key(k[0]), k[1], k[2]))
        edge = dict(zip(sk, model_edge([k[1] for k in sk], [k[2] for k in sk], [k[0] for k in sk]))) if "edge" in expect else None
        for kind, e in zip(expect, evs):
            if sorted(e["keys"]) != sorted(keys):
                return run.violate(mon, "correction-on-wrong-bins", f"{cname}/{kind}: correction saw {len(e['keys'])} bins, {len(keys)} pass the reference filters", wit)
            for k in keys:
                c = rrows[k][kind] if kind in ("gc", "rmask") else edge[k]
                if not abs(e["cov"][k] - c) <= 1e-12 * max(1.0, abs(c)):
                    return run.violate(mon, f"{kind}-covariate-misaligned", f"{cname}: bin {k} was ordered by {kind}={e['cov'][k]}, its own value is {c}", wit)
            src = prev["out"] if prev is not None else None
            if src is None:
                d = [e["in"][k] - slog[k] for k in keys]
                if max(d) - min(d) > 1e-9:
                    return run.violate(mon, "first-correction-input-not-sample", f"{cname}/{kind}: input log2 - sample log2 is not constant (range {max(d) - min(d):.3g})", wit)
            else:
                if any(abs(e["in"][k] - src[k]) > 1e-12 for k in keys):
                    return run.violate(mon, "correction-chain-broken", f"{cname}/{kind}: input is not the previous correction's output", wit)
            prev = e
        last[cname] = prev["out"] if prev is not None else None
        verdict_cls.append(f"{cname}:" + ("+".join(expect) if expect else "none"))
    # ---- C. out = corrected sample - reference + constant per class
    for cname, keys in classes.items():
        if not keys:
            continue
        if last.get(cname) == "undecidable":
            run.extra["fix:clause-C-not-decidable-without-correction-hook"] += 1
            continue
        base = last.get(cname) or slog
        d = [olog[k] - (base[k] - rrows[k]["log2"]) for k in keys]
        if max(d) - min(d) > 1e-9:
            i = int(np.argmax(np.abs(np.array(d) - np.median(d))))
            return run.violate(mon, "log2-not-sample-minus-reference", f"{cname}: out - (sample - reference) varies by {max(d) - min(d):.4g} within the class (bin {keys[i]})", wit)
    # ---- D. centred
    per_chrom = {}
    for k in ok_:
        if is_auto(k[0]) and not (olog[k] < LOW or sdepth[k] == 0):
            per_chrom.setdefault(k[0], []).append(olog[k])
    if per_chrom:
        if any(abs(v - LOW) < 1.0 for vs in per_chrom.values() for v in vs):
            return run.ood(mon, "bin-near-low-coverage-cutoff")
        centre = float(np.median([np.median(v) for v in per_chrom.values()]))
        if abs(centre) > 1e-9:
            return run.violate(mon, "output-not-centred", f"median of autosomal chromosome medians is {centre}", wit)
    # ---- E. weights
    if "weight" not in out.columns:
        return run.violate(mon, "no-weight-column", "output carries no weight", wit)
    w = out["weight"].values.astype(float)
    if np.isnan(w).any() or (w < 1e-4 - 1e-15).any() or (w > 1.0 + 1e-15).any():
        return run.violate(mon, "weight-out-of-range", f"weights span [{np.nanmin(w)}, {np.nanmax(w)}]", wit)
    wmap = dict(zip(ok_, w))
    for cname, keys in classes.items():
        if len(keys) < 2:
            continue
        size = np.array([k[2] - k[1] for k in keys], float)
        spread = np.array([rrows[k]["spread"] for k in keys], float)
        ww = np.array([wmap[k] for k in keys])
        # a <= b in size and a >= b in spread  =>  w_a <= w_b
        dom = (size[:, None] <= size[None, :]) & (spread[:, None] >= spread[None, :])
        bad = dom & (ww[:, None] > ww[None, :] + 1e-12)
        if bad.any():
            a, b = map(int, np.argwhere(bad)[0])
            return run.violate(mon, "weight-not-monotone", f"{cname}: bin {keys[a]} (size {size[a]:.0f}, spread {spread[a]}) has weight {ww[a]} > {ww[b]} of bin {keys[b]} (size {size[b]:.0f}, spread {spread[b]})", wit)
    run.held(mon, "fix:" + ",".join(verdict_cls) + (":pooled" if (ref["spread"] > 1e-4).any() else ":flat"))
    # ---- F. metamorphic re-invocation
    meta = getattr(run._tls, "fix_meta", None)
    if meta:
        _metamorphic(run, snap, res, meta, wit)


def _residuals_cancel(out, i):
    """True when, in the class (on-/off-target) of output row i, no chromosome has
    more than two covered bins: the residuals about the chromosome medians are
    then exactly +-x pairs and zeros, their sum cancels up to rounding, and
    biweight_midvariance's `sum == 0` test (MAD fall-back) flips with the last bit."""
    anti = out["gene"].isin(ANTI)
    cls = out[anti == bool(anti.iloc[i])]
    cov = cls[~((cls["log2"] < LOW) | (cls["depth"] == 0))] if "depth" in cls.columns else cls[~(cls["log2"] < LOW)]
    return len(cov) > 0 and int(cov.groupby("chromosome").size().max()) <= 2


def _rebuild(obj, df):
    return obj.as_dataframe(df.reset_index(drop=True))


def _metamorphic(run, snap, res, meta, wit):
    import cnvlib.fix as FX
    from .. import runtime as rt
    mon = "fix.do_fix[invariance]"
    real = rt.original(FX.do_fix)
    t_obj, a_obj, r_obj = snap["objs"]
    o = snap["opts"]
    base = res.data.reset_index(drop=True)

    def call(t, a, r):
        return real(_rebuild(t_obj, t), _rebuild(a_obj, a), _rebuild(r_obj, r), o["diploid_parx_genome"], o["do_gc"], o["do_edge"], o["do_rmask"],
                    False, o["smoothing_window_fraction"]).data.reset_index(drop=True)

    def same(df, what, cols=("log2", "weight")):
        if _key(df) != _key(base):
            run.violate(mon, f"{what}-changes-bins", f"{what}: the set or order of output bins changed", wit)
            return False
        for c in cols:
            d = np.abs(df[c].values.astype(float) - base[c].values.astype(float))
            if np.nanmax(d) > 1e-9:
                i = int(np.nanargmax(d))
                mech = f"{what}-changes-{c}"
                if c == "weight" and _residuals_cancel(base, i):
                    # the class's variance estimate sits on the exact-cancellation switch of biweight_midvariance
                    mech += ":class-residuals-cancel-exactly"
                run.violate(mon, mech, f"{what}: {c} of bin {_key(base)[i]} moved by {d[i]:.4g}", dict(wit, **{"detail": meta}))
                return False
        return True

    rng = np.random.default_rng(meta["seed"])
    tgt, anti, ref = snap["tgt"], snap["anti"], snap["ref"]
    try:
        for which in meta["permute"]:
            t2, a2, r2 = tgt, anti, ref
            if which == "target":
                t2 = tgt.iloc[rng.permutation(len(tgt))]
            elif which == "antitarget":
                if len(anti) < 2:
                    continue
                a2 = anti.iloc[rng.permutation(len(anti))]
            else:
                r2 = ref.iloc[rng.permutation(len(ref))]
            if same(call(t2, a2, r2), f"permuting-{which}-rows"):
                run.held(mon, f"perm:{which}")
        k = meta.get("scale")
        if k:
            covered = (tgt["depth"] > 0).all() and (not len(anti) or (anti["depth"] > 0).all())
            if covered:
                t2 = tgt.assign(depth=tgt["depth"] * k, log2=tgt["log2"] + math.log2(k))
                a2 = anti.assign(depth=anti["depth"] * k, log2=anti["log2"] + math.log2(k)) if len(anti) else anti
                if same(call(t2, a2, ref), "rescaling-depth"):
                    run.held(mon, "scale")
            else:
                run.ood(mon, "scale-with-uncovered-bins")
    except Exception as exc:
        run.violate(mon, f"variant-raises-{type(exc).__name__}", f"re-invocation on a permuted/rescaled copy raised {exc!r}", wit)


def exc_fix(run, snap, exc, args, kwargs):
    mon = "fix.do_fix"
    run._tls.fix_chain = None
    if snap is None:
        return
    prob, _ = _classify(snap)
    if prob and prob.startswith("refusal"):
        if isinstance(exc, ValueError):
            return run.held(mon, prob)
        return run.violate(mon, "refusal-with-wrong-error", f"{prob}: raised {exc!r} instead of a ValueError", None)
    if prob:
        return run.ood(mon, prob[4:])
    run.violate(mon, f"fix-raises-{type(exc).__name__}", f"raised {exc!r} on well-formed input",
                {"options": snap["opts"], "target_head": snap["tgt"].head(30), "antitarget_head": snap["anti"].head(10), "reference_head": snap["ref"].head(40)})


def attach_all(run, rt):
    import cnvlib.fix as FX
    import cnvlib.commands as CM
    import cnvlib.smoothing as SM
    import cnvlib.cnary as CN
    traced = [("fix.do_fix", rt.opt(FX, "do_fix")), ("fix.load_adjust_coverages", rt.opt(FX, "load_adjust_coverages")), ("fix.mask_bad_bins", rt.opt(FX, "mask_bad_bins")),
              ("fix.match_ref_to_sample", rt.opt(FX, "match_ref_to_sample")), ("fix.center_by_window", rt.opt(FX, "center_by_window")), ("fix.get_edge_bias", rt.opt(FX, "get_edge_bias")),
              ("fix.edge_losses", rt.opt(FX, "edge_losses")), ("fix.edge_gains", rt.opt(FX, "edge_gains")), ("fix.apply_weights", rt.opt(FX, "apply_weights")),
              ("smoothing.rolling_median", rt.opt(SM, "rolling_median")), ("CopyNumArray.center_all", rt.opt(CN.CopyNumArray, "center_all"))]
    rt.attach(FX, "match_ref_to_sample", name="fix.match_ref_to_sample", pre=pre_match, post=post_match, on_exc=exc_match)
    AVAILABLE["cbw"] = rt.attach(FX, "center_by_window", name="fix.center_by_window", pre=pre_cbw, post=post_cbw) is not None
    rt.attach(FX, "get_edge_bias", name="fix.get_edge_bias", pre=pre_edge, post=post_edge)
    rt.attach(FX, "do_fix", name="fix.do_fix", pre=pre_fix, post=post_fix, on_exc=exc_fix, also=[(CM, "do_fix")])
    return traced


def finalize(run):
    """Settle the calls in which no correction at all was observed (see clause B)."""
    mon = "fix.do_fix"
    deferred = run.__dict__.pop("_fix_deferred", [])
    if not deferred:
        return
    if run.extra.get("center_by_window-calls-inside-do_fix", 0) == 0:
        run.extra["do_fix-calls-with-corrections-not-observable"] += len(deferred)      # the hook is off this tree's path: boundary clauses decided alone
        return
    for detail, wit in deferred:
        run.violate(mon, "wrong-set-of-corrections", detail, wit)
