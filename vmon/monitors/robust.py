"""Monitors on cnvlib.descriptives and cnvlib.smoothing (C19).  Every call made
by any workload (direct, or from fix/reference/segmetrics/...) is judged:
range, sign, agreement with the independent formula, and metamorphic clauses
(shift, power-of-two rescale) evaluated by re-invoking the real function.
"""
import math

import numpy as np

from ..models import robust as R

SHIFTS = (1.0, -3.5, 100.0)
SCALES = (0.5, 4.0)   # powers of two: exact in floating point


def _tol(*vals):
    m = max([1.0] + [abs(float(v)) for v in vals if v is not None and np.isfinite(v)])
    return 1e-9 * m


def _vec(x):
    return np.asarray(x, dtype=float)


def _kind(a):
    n = len(a)
    if n == 0:
        return "empty"
    if n == 1:
        return "n1"
    if a.min() == a.max():
        return "constant"
    if len(np.unique(a)) <= 2:
        return "two-valued"
    if len(np.unique(a)) < 0.7 * n:
        return "ties"
    m = R.mad(a, scale=False)
    if m > 0 and np.max(np.abs(a - R.median(a))) > 6 * m:
        return "outlier"
    return "generic"


class _ReRaised(Exception):
    pass


class Est:
    """One estimator monitor."""

    def __init__(self, name, kind, weighted=False, model=None, kwargs_ok=()):
        self.name, self.kind, self.weighted, self.model, self.kwargs_ok = name, kind, weighted, model, kwargs_ok

    def pre(self, run, args, kwargs):
        a = _vec(args[0] if args else kwargs["a"])
        if self.weighted:
            w = _vec(args[1] if len(args) > 1 else kwargs.get("w", kwargs.get("weights")))
            return {"a": a.copy(), "w": w.copy(), "had_nan": bool(np.isnan(a).any())}
        return {"a": a.copy(), "had_nan": bool(np.isnan(a).any())}

    def post(self, run, snap, res, args, kwargs):
        mon = f"descriptives.{self.name}"
        extra = {k: v for k, v in kwargs.items() if k not in ("a", "w", "weights")}
        if any(k not in self.kwargs_ok for k in extra) or len(args) > (2 if self.weighted else 1):
            return run.ood(mon, "non-default-parameters")
        a = snap["a"]
        if a.ndim != 1:
            return run.ood(mon, "not-1d")
        if np.isinf(a).any():
            return run.ood(mon, "infinite-input")
        if self.weighted:
            if len(a) != len(snap["w"]):
                return run.ood(mon, "length-mismatch")
            a, w = R.strip_nan(a, snap["w"])
            if len(a) and (w.min() < 0 or w.sum() <= 0 or np.isinf(w).any()):
                return run.ood(mon, "weights-not-positive")
        else:
            a, w = R.strip_nan(a), None
        n = len(a)
        wit = {"a": a.tolist()[:400], "w": None if w is None else w.tolist()[:400], "result": res}
        if n == 0:
            if not (isinstance(res, float) and math.isnan(res)):
                return run.violate(mon, f"{self.name}-empty-not-nan", f"empty input gave {res!r}", wit)
            return run.held(mon, "empty")
        try:
            r = float(res)
        except Exception:
            return run.violate(mon, f"{self.name}-not-scalar", f"returned {type(res).__name__}", wit)
        if not math.isfinite(r):
            return run.violate(mon, f"{self.name}-not-finite", f"returned {r!r} on finite data", wit)
        kind = _kind(a)
        cls = f"{self.name}:{kind}" + (":nan" if snap["had_nan"] else "")
        t = _tol(a.min(), a.max())
        def f(aa, ww):
            try:
                return self._call(aa, ww)
            except Exception as exc:
                raise _ReRaised(exc)
        try:
            return self._judge(run, mon, cls, kind, a, w, r, t, f, wit, extra, n)
        except _ReRaised as rr:
            exc = rr.args[0]
            return run.violate(mon, f"{self.name}-raises-{type(exc).__name__}", f"raised {exc!r} on a shifted/rescaled copy of the input", wit)

    def _judge(self, run, mon, cls, kind, a, w, r, t, f, wit, extra, n):
        if self.kind == "location":
            if r < a.min() - t or r > a.max() + t:
                return run.violate(mon, f"{self.name}-out-of-range", f"{r} outside [{a.min()}, {a.max()}]", wit)
            if self.name == "modal_location" and not self._mode_unique(a):
                run.extra["mode-tie-skipped-shift"] += 1
            else:
                for k in SHIFTS:
                    r2 = f(a + k, w)
                    if abs(r2 - (r + k)) > _tol(r, k, a.min(), a.max()) * 10:
                        return run.violate(mon, f"{self.name}-shift", f"f(a+{k}) = {r2} but f(a)+{k} = {r + k}", wit)
        else:
            if r < 0:
                return run.violate(mon, f"{self.name}-negative", f"scale estimate {r} < 0", wit)
            if kind in ("constant", "n1") and abs(r) > 1e-12 * max(1.0, abs(a[0])):
                return run.violate(mon, f"{self.name}-constant-nonzero", f"{r} on constant data {a[0]}", wit)
            if self.name not in ("biweight_midvariance", "mean_squared_error"):
                for k in SHIFTS:
                    r2 = f(a + k, w)
                    if abs(r2 - r) > _tol(r, k, a.min(), a.max()) * 10:
                        return run.violate(mon, f"{self.name}-shift", f"f(a+{k}) = {r2} != f(a) = {r}", wit)
                for k in SCALES:
                    r2 = f(a * k, w)
                    if abs(r2 - k * r) > _tol(k * r) * 10:
                        return run.violate(mon, f"{self.name}-rescale", f"f({k}*a) = {r2} != {k}*f(a) = {k * r}", wit)
        if self.model and n >= 2:
            verdict = self.model(a, w, r, f, extra)
            if verdict is None:
                run.extra[f"formula-skipped:{self.name}"] += 1
            elif verdict is not True:
                return run.violate(mon, f"{self.name}-formula", verdict, wit)
        run.held(mon, cls)

    def _mode_unique(self, a):
        from scipy import stats
        s = np.sort(a)
        if s[0] == s[-1]:
            return True
        try:
            y = stats.gaussian_kde(s).evaluate(s)
        except Exception:
            return False
        top = y.max()
        peak = s[y.argmax()]
        others = y[s != peak]
        return not len(others) or (top - others.max()) > 1e-6 * top

    def bind(self, orig):
        if self.weighted:
            self._call = lambda a, w: float(orig(a, w))
        else:
            self._call = lambda a, w: float(orig(a))


# -- formula oracles: return True (agrees), None (ill-conditioned, skipped), or a message

def _agree(r, x):
    return abs(r - x) <= 1e-9 * max(1.0, abs(x), abs(r))


def m_biloc(a, w, r, f, extra=None):
    x, ok = R.biweight_location(a)
    if not ok:
        return None
    return True if abs(r - x) <= 1e-7 * max(1.0, abs(x)) else f"biweight_location = {r}, published formula (c=6, |u|<1, <=5 iterations) gives {x}"


def m_bivar(a, w, r, f, extra=None):
    if extra and extra.get("initial") is not None:
        loc, ok1 = float(extra["initial"]), True
    else:
        loc, ok1 = R.biweight_location(a)
    vals, ok2 = R.biweight_midvariance_variants(a, loc)
    if not (ok1 and ok2) or not vals:
        return None
    if any(abs(r - v) <= 1e-6 * max(1.0, abs(v)) for v in vals):
        return True
    return f"biweight_midvariance = {r}, published formula (c=9) gives {vals}"


def m_mad(a, w, r, f, extra=None):
    x = R.mad(a)
    return True if _agree(r, x) else f"MAD = {r}, 1.4826*median|a-median| = {x}"


def m_iqr(a, w, r, f, extra=None):
    x = R.iqr(a)
    return True if _agree(r, x) else f"IQR = {r}, Q3-Q1 = {x}"


def m_gapper(a, w, r, f, extra=None):
    x = R.gapper(a)
    return True if _agree(r, x) else f"gapper = {r}, formula = {x}"


def m_qn(a, w, r, f, extra=None):
    if len(a) > 400:
        return None
    x = R.q_n(a)
    return True if _agree(r, x) else f"Qn = {r}, first quartile of pairwise |differences| / Cn = {x}"


def m_wmedian(a, w, r, f, extra=None):
    ok, (lo, hi, W) = R.half_weight_ok(a, w, r)
    if not ok:
        return f"weighted median {r}: weight below = {lo}, above = {hi}, total = {W} (each must be <= half)"
    if w.min() == w.max() and w.min() > 0:
        x = R.median(a)
        if not _agree(r, x):
            return f"equal weights: weighted median {r} != ordinary median {x}"
    return True


def make_m_wmad(wmedian_orig):
    def m_wmad(a, w, r, f, extra=None):
        m = float(wmedian_orig(a, w))
        dev = np.abs(a - m)
        ok, (lo, hi, W) = R.half_weight_ok(dev, w, r / 1.4826, tol=1e-9)
        if not ok:
            return f"weighted MAD {r}: {r / 1.4826} is not a weighted median of |a - {m}| (weight below {lo}, above {hi}, total {W})"
        return True
    return m_wmad


def m_wstd(a, w, r, f, extra=None):
    x = R.weighted_std(a, w)
    return True if abs(r - x) <= 1e-9 * max(1.0, abs(x)) + 1e-12 * max(1.0, np.abs(a).max()) else f"weighted std {r} != sqrt(sum w (a-mu)^2 / sum w) = {x}"


# --------------------------------------------------------------- smoothers

def _snap_smooth(run, args, kwargs):
    x = _vec(args[0] if args else kwargs["x"])
    return {"x": x.copy()}


def _smooth_common(run, mon, name, x, res, bounded, wit):
    y = np.asarray(res, dtype=float)
    if y.shape != x.shape:
        return run.violate(mon, f"{name}-length", f"{len(x)} values in, shape {y.shape} out", wit)
    if not np.isfinite(y).all():
        return run.violate(mon, f"{name}-not-finite", "non-finite output on finite input", wit)
    t = 1e-9 * max(1.0, np.abs(x).max())
    if x.min() == x.max() and np.abs(y - x[0]).max() > t:
        return run.violate(mon, f"{name}-constant", f"constant {x[0]} became {y[np.abs(y - x[0]).argmax()]}", wit)
    if bounded and (y.min() < x.min() - t or y.max() > x.max() + t):
        return run.violate(mon, f"{name}-out-of-range", f"output range [{y.min()}, {y.max()}] exceeds input [{x.min()}, {x.max()}]", wit)
    return True


def _width_ok(width):
    try:
        return (0 < width < 1) or (width >= 2 and int(width) == width)
    except Exception:
        return False


def post_rolling_median(run, snap, res, args, kwargs):
    mon, x = "smoothing.rolling_median", snap["x"]
    width = args[1] if len(args) > 1 else kwargs.get("width")
    if x.ndim != 1 or not len(x) or not np.isfinite(x).all() or not _width_ok(width):
        return run.ood(mon, "non-finite-or-bad-width")
    wit = {"x": x.tolist()[:400], "width": width, "y": np.asarray(res, float).tolist()[:400]}
    if _smooth_common(run, mon, "rolling_median", x, res, True, wit) is not True:
        return
    if len(x) >= 2:
        want = R.rolling_median_mirror(x, R.width_to_wing(width, len(x)))
        if np.abs(np.asarray(res, float) - want).max() > 1e-9 * max(1.0, np.abs(x).max()):
            return run.violate(mon, "rolling_median-formula", "differs from the median over the mirror-padded window", dict(wit, want=want.tolist()[:400]))
    run.held(mon, "rolling_median:" + ("n1" if len(x) == 1 else "constant" if x.min() == x.max() else "frac" if width < 1 else "int"))


def post_kaiser(run, snap, res, args, kwargs):
    mon, x = "smoothing.kaiser", snap["x"]
    width = args[1] if len(args) > 1 else kwargs.get("width")
    weights = args[2] if len(args) > 2 else kwargs.get("weights")
    if weights is not None or kwargs.get("do_fit_edges") or (len(args) > 3 and args[3]):
        return run.ood(mon, "weighted-or-edge-fit")
    if x.ndim != 1 or not len(x) or not np.isfinite(x).all() or (width is not None and not _width_ok(width)):
        return run.ood(mon, "non-finite-or-bad-width")
    wit = {"x": x.tolist()[:400], "width": width, "y": np.asarray(res, float).tolist()[:400]}
    if _smooth_common(run, mon, "kaiser", x, res, True, wit) is True:
        run.held(mon, "kaiser:" + ("n1" if len(x) == 1 else "constant" if x.min() == x.max() else "auto" if width is None else "frac" if width < 1 else "int"))


def post_savgol(run, snap, res, args, kwargs):
    mon, x = "smoothing.savgol", snap["x"]
    total_width = args[1] if len(args) > 1 else kwargs.get("total_width")
    weights = args[2] if len(args) > 2 else kwargs.get("weights")
    if x.ndim != 1 or not len(x) or not np.isfinite(x).all():
        return run.ood(mon, "non-finite")
    if total_width is not None and not _width_ok(total_width):
        return run.ood(mon, "bad-width")
    if weights is not None:
        w = _vec(weights)
        if len(w) != len(x) or not np.isfinite(w).all() or w.min() <= 0:
            return run.ood(mon, "weights-not-strictly-positive")
    wit = {"x": x.tolist()[:400], "total_width": total_width, "weights": None if weights is None else _vec(weights).tolist()[:400],
           "y": np.asarray(res, float).tolist()[:400]}
    if _smooth_common(run, mon, "savgol", x, res, False, wit) is True:
        run.held(mon, "savgol:" + ("weighted" if weights is not None else "plain") + (":n1" if len(x) == 1 else ":constant" if x.min() == x.max() else ""))


def exc_smooth(name):
    def on_exc(run, snap, exc, args, kwargs):
        mon = f"smoothing.{name}"
        if snap is None:
            return
        x = snap["x"]
        width = args[1] if len(args) > 1 else kwargs.get("width", kwargs.get("total_width"))
        weights = args[2] if len(args) > 2 else kwargs.get("weights")
        if x.ndim != 1 or not len(x) or not np.isfinite(x).all():
            return run.ood(mon, "non-finite")
        if width is not None and not _width_ok(width):
            return run.ood(mon, "bad-width")   # documented ValueError
        if name == "rolling_median" and width is None:
            return run.ood(mon, "bad-width")
        if weights is not None:
            if name == "kaiser":
                return run.ood(mon, "weighted-kaiser")
            w = _vec(weights)
            if len(w) != len(x) or not np.isfinite(w).all() or w.min() <= 0:
                return run.ood(mon, "weights-not-strictly-positive")
        run.violate(mon, f"{name}-raises-{type(exc).__name__}", f"raised {exc!r} on a finite signal of length {len(x)}",
                    {"x": x.tolist()[:400], "width": width})
    return on_exc


def exc_est(est):
    def on_exc(run, snap, exc, args, kwargs):
        mon = f"descriptives.{est.name}"
        if snap is None:
            return
        a = snap["a"]
        if a.ndim != 1 or np.isinf(a).any():
            return run.ood(mon, "not-1d-or-infinite")
        if est.weighted:
            if len(a) != len(snap["w"]):
                return run.ood(mon, "length-mismatch")   # documented ValueError
            aa, w = R.strip_nan(a, snap["w"])
            if len(aa) and (w.min() < 0 or w.sum() <= 0):
                return run.ood(mon, "weights-not-positive")
        run.violate(mon, f"{est.name}-raises-{type(exc).__name__}", f"raised {exc!r}", {"a": a.tolist()[:400]})
    return on_exc


def attach_all(run, rt):
    import cnvlib.descriptives as D
    import cnvlib.smoothing as S
    import cnvlib.segfilters, cnvlib.autobin  # noqa: imported by name there
    wmed_orig = D.weighted_median
    ests = [
        Est("biweight_location", "location", model=m_biloc),
        Est("modal_location", "location"),
        Est("weighted_median", "location", weighted=True, model=m_wmedian),
        Est("biweight_midvariance", "scale", model=m_bivar, kwargs_ok=("initial",)),
        Est("gapper_scale", "scale", model=m_gapper),
        Est("interquartile_range", "scale", model=m_iqr),
        Est("median_absolute_deviation", "scale", model=m_mad),
        Est("q_n", "scale", model=m_qn),
        Est("weighted_mad", "scale", weighted=True, model=make_m_wmad(wmed_orig)),
        Est("weighted_std", "scale", weighted=True, model=m_wstd),
    ]
    traced = []
    for e in ests:
        orig = getattr(D, e.name)
        e.bind(orig)
        traced.append((f"descriptives.{e.name}", orig))
        also = [(cnvlib.segfilters, "weighted_median"), (cnvlib.autobin, "weighted_median")] if e.name == "weighted_median" else ()
        rt.attach(D, e.name, name=f"descriptives.{e.name}", pre=e.pre, post=e.post, on_exc=exc_est(e), also=also)
    for name, post in (("rolling_median", post_rolling_median), ("kaiser", post_kaiser), ("savgol", post_savgol)):
        traced.append((f"smoothing.{name}", getattr(S, name)))
        rt.attach(S, name, name=f"smoothing.{name}", pre=_snap_smooth, post=post, on_exc=exc_smooth(name))
    traced += [("smoothing._width2wing", rt.opt(S, "_width2wing")), ("smoothing._pad_array", rt.opt(S, "_pad_array")), ("smoothing.check_inputs", rt.opt(S, "check_inputs"))]
    return traced
