"""Monitors on cnvlib.call (C01, C02) — every do_call / absolute_threshold
execution is judged on the universal clauses (integer cn >= 0, step function,
row count, allelic split); the clauses that need the generator's truth (cn = n
for a log2 produced by the forward mixing model) read it from run.case.
"""
import math

import numpy as np

from ..gen import cna_records
from ..models import copynumber as CN

DEFAULT_THRESHOLDS = (-1.1, -0.25, 0.2, 0.7)


def _arg(args, kwargs, pos, name, default=None):
    if len(args) > pos:
        return args[pos]
    return kwargs.get(name, default)


def _params(args, kwargs):
    return dict(
        variants=_arg(args, kwargs, 1, "variants"), method=_arg(args, kwargs, 2, "method", "threshold"),
        ploidy=_arg(args, kwargs, 3, "ploidy", 2), purity=_arg(args, kwargs, 4, "purity"),
        male_ref=bool(_arg(args, kwargs, 5, "is_haploid_x_reference", False)),
        female=bool(_arg(args, kwargs, 6, "is_sample_female", False)),
        par=_arg(args, kwargs, 7, "diploid_parx_genome"), filters=_arg(args, kwargs, 8, "filters"),
        thresholds=_arg(args, kwargs, 9, "thresholds", DEFAULT_THRESHOLDS),
    )


def pre_do_call(run, args, kwargs):
    cnarr = args[0]
    p = _params(args, kwargs)
    snap = {"rows": cna_records(cnarr, ["chromosome", "start", "end", "log2"]), "n": len(cnarr),
            "baf": cnarr["baf"].tolist() if "baf" in cnarr else None, "p": p,
            "filters": list(p["filters"]) if p["filters"] else []}
    return snap


def post_do_call(run, snap, res, args, kwargs):
    mon = "call.do_call"
    p, rows = snap["p"], snap["rows"]
    method, ploidy, purity = p["method"], p["ploidy"], p["purity"]
    filters = snap["filters"]
    wit = {"params": {k: v for k, v in p.items() if k != "variants"}, "rows": rows[:40]}
    if method == "none":
        return run.ood(mon, "method-none")
    if not rows:
        return run.ood(mon, "empty")
    cn = res["cn"].tolist()
    wit["cn"] = cn[:40]
    # (a) integer, non-negative -- whatever log2/purity/ploidy
    if not set(filters) - {"cn"}:
        for v in cn:
            if v is None or (isinstance(v, float) and (math.isnan(v) or v != int(v))) or v < 0:
                mech = "cn-negative" if (v is not None and v == v and v < 0) else "cn-not-integer"
                if mech == "cn-negative" and v == -2 ** 63:
                    # not a wrong sign in the arithmetic: the (correctly huge) estimate does not fit the 64-bit integer column
                    mech = "cn-int64-overflow"
                return run.violate(mon, mech + ("-purity" if purity and purity < 1 else ""), f"reported cn {v!r}", wit)
    if filters:
        run.held(mon, f"call:{method}:filtered")
        return
    if len(cn) != len(rows):
        return run.violate(mon, "row-count-changed", f"{len(rows)} rows in, {len(cn)} out", wit)
    purity_path = bool(purity and purity < 1.0)
    xl, yl = CN.labels_for(rows[0][0])
    out_log2 = res["log2"].tolist()
    truth = (run.case or {}).get("truth_n")
    ties = 0
    if method == "clonal":
        for i, (chrom, s, e, lg) in enumerate(rows):
            if purity_path:
                if truth is None or truth[i] is None:
                    continue
                n = truth[i]
                if cn[i] != n:
                    cls = CN.region_class(chrom, s, e, p["par"], xl, yl)
                    return run.violate(mon, f"clonal-purity-cn-{cls}", f"row {i} {chrom}: log2 {lg} generated from n={n} (purity {purity}, ploidy {ploidy}, "
                                       f"male_ref={p['male_ref']}, female={p['female']}) but cn={cn[i]}", wit)
                if ploidy % 2 == 0:
                    cls = CN.region_class(chrom, s, e, p["par"], xl, yl)
                    r = CN.ref_copies(cls, ploidy, p["male_ref"])
                    if r > 0:
                        want = math.log2(max(n, 0.001 * ploidy) / r)
                        if abs(out_log2[i] - want) > (run.case or {}).get("log2_tol", 1e-6):
                            return run.violate(mon, f"clonal-purity-log2-{cls}", f"row {i} {chrom}: rewritten log2 {out_log2[i]} != log2(max(n,.001*ploidy)/r) = {want} (n={n}, r={r})", wit)
            else:
                if lg is None:
                    continue
                r = CN.ref_copies_pure(chrom, ploidy, p["male_ref"])
                x = r * 2.0 ** lg
                if CN.near_half(x):
                    ties += 1
                    continue
                if cn[i] != int(round(x)):
                    return run.violate(mon, "clonal-pure-cn", f"row {i} {chrom}: cn={cn[i]} but nearest integer to r*2^log2 = {x}", wit)
                if truth is not None and truth[i] is not None and cn[i] != truth[i]:
                    return run.violate(mon, "clonal-pure-cn-truth", f"row {i} {chrom}: cn={cn[i]}, generated from n={truth[i]}", wit)
    elif method == "threshold" and not purity_path:
        th = tuple(p["thresholds"])
        if list(th) != sorted(set(th)):
            return run.ood(mon, "thresholds-not-strictly-increasing")
        for i, (chrom, s, e, lg) in enumerate(rows):
            r = CN.ref_copies_pure(chrom, ploidy, p["male_ref"])
            if lg is not None and sum(1 for t in th if t < lg) == len(th) and CN.near_int(r * 2.0 ** lg):
                ties += 1
                continue
            want = CN.threshold_cn(lg, th, r, ploidy)
            if cn[i] != want:
                kind = "nan" if lg is None else "ceil" if sum(1 for t in th if t < lg) == len(th) else "scan" if r == ploidy else "scan-haploid"
                return run.violate(mon, f"threshold-cn-{kind}", f"row {i} {chrom}: log2={lg} thresholds={th} r={r} ploidy={ploidy}: cn={cn[i]}, step function gives {want}", wit)
    run.extra["call-rounding-ties-skipped"] += ties
    # allelic split
    if "baf" in res:
        baf = res["baf"].tolist()
        c1, c2 = res["cn1"].tolist(), res["cn2"].tolist()
        wit.update(baf=baf[:40], cn1=c1[:40], cn2=c2[:40])
        for i in range(len(cn)):
            b_missing = baf[i] is None or (isinstance(baf[i], float) and math.isnan(baf[i]))
            m1 = c1[i] is None or (isinstance(c1[i], float) and math.isnan(c1[i]))
            m2 = c2[i] is None or (isinstance(c2[i], float) and math.isnan(c2[i]))
            should_miss = b_missing and cn[i] > 0
            if (m1 or m2) != should_miss or m1 != m2:
                return run.violate(mon, "allelic-missingness", f"row {i}: baf={baf[i]} cn={cn[i]} cn1={c1[i]} cn2={c2[i]} (missing exactly where no BAF and cn>0)", wit)
            if not m1:
                if c1[i] + c2[i] != cn[i] or not (0 <= c1[i] <= cn[i]) or not (0 <= c2[i] <= cn[i]) or c1[i] != int(c1[i]):
                    return run.violate(mon, "allelic-sum", f"row {i}: cn1={c1[i]} cn2={c2[i]} cn={cn[i]}", wit)
        run.held("call.do_call[allelic]", f"allelic:{'purity' if purity_path else 'pure'}")
    run.held(mon, f"call:{method}:{'purity' if purity_path else 'pure'}:ploidy{ploidy}")


def exc_do_call(run, snap, exc, args, kwargs):
    mon = "call.do_call"
    if snap is None or not snap["rows"]:
        return
    p = snap["p"]
    if p["method"] not in ("threshold", "clonal", "none"):
        return run.ood(mon, "bad-method")       # documented ValueError
    if isinstance(exc, ValueError) and "requires column" in str(exc):
        return run.ood(mon, "filter-column-missing")  # documented refusal
    if p["method"] == "clonal" and any(r[3] is None for r in snap["rows"]):
        return run.ood(mon, "clonal-with-missing-log2")   # only the threshold method defines a fallback
    if not isinstance(p["ploidy"], (int, np.integer)) or p["ploidy"] < 1:
        return run.ood(mon, "bad-ploidy")
    run.violate(mon, f"do_call-raises-{type(exc).__name__}", f"raised {exc!r}", {"params": {k: v for k, v in p.items() if k != 'variants'}, "rows": snap["rows"][:40]})


def pre_abs_threshold(run, args, kwargs):
    cnarr = args[0]
    return {"rows": cna_records(cnarr, ["chromosome", "log2"]), "ploidy": _arg(args, kwargs, 1, "ploidy"),
            "th": tuple(_arg(args, kwargs, 2, "thresholds")), "male_ref": bool(_arg(args, kwargs, 3, "is_haploid_x_reference"))}


def post_abs_threshold(run, snap, res, args, kwargs):
    mon = "call.absolute_threshold"
    th, ploidy = snap["th"], snap["ploidy"]
    if list(th) != sorted(set(th)) or not th:
        return run.ood(mon, "thresholds-not-strictly-increasing")
    got = np.asarray(res, dtype=float)
    if len(got) != len(snap["rows"]):
        return run.violate(mon, "threshold-length", f"{len(snap['rows'])} rows, {len(got)} values", snap)
    for i, (chrom, lg) in enumerate(snap["rows"]):
        r = CN.ref_copies_pure(chrom, ploidy, snap["male_ref"])
        if lg is not None and sum(1 for t in th if t < lg) == len(th) and CN.near_int(r * 2.0 ** lg):
            continue
        want = CN.threshold_cn(lg, th, r, ploidy)
        if got[i] != want:
            return run.violate(mon, "threshold-step", f"row {i} {chrom} log2={lg}: {got[i]} != {want} (thresholds {th}, r={r}, ploidy={ploidy})",
                               {"rows": snap["rows"][:40], "thresholds": th, "ploidy": ploidy})
    # monotone for the default thresholds wherever the definition is (ploidy >= 2)
    if th == DEFAULT_THRESHOLDS and ploidy >= 2:
        by = {}
        for (chrom, lg), v in zip(snap["rows"], got):
            if lg is not None:
                by.setdefault(chrom, []).append((lg, v))
        for chrom, pts in by.items():
            pts.sort()
            for (l1, v1), (l2, v2) in zip(pts, pts[1:]):
                if v2 < v1 and l2 > l1:
                    return run.violate(mon, "threshold-not-monotone", f"{chrom}: cn {v1} at log2 {l1} but {v2} at {l2}", {"rows": snap["rows"][:40]})
    run.held(mon, f"abs_threshold:ploidy{ploidy}:{'default' if th == DEFAULT_THRESHOLDS else 'custom'}")


def pre_rescale_baf(run, args, kwargs):
    return {"purity": args[0], "baf": np.asarray(args[1], dtype=float).copy(), "normal": _arg(args, kwargs, 2, "normal_baf", 0.5)}


def post_rescale_baf(run, snap, res, args, kwargs):
    mon = "call.rescale_baf"
    p, nb = snap["purity"], snap["normal"]
    want = (snap["baf"] - nb * (1 - p)) / p
    got = np.asarray(res, dtype=float)
    bad = ~((np.abs(got - want) <= 1e-9) | (np.isnan(got) & np.isnan(want)))
    if bad.any():
        i = int(np.argmax(bad))
        return run.violate(mon, "rescale-baf-formula", f"baf {snap['baf'][i]} purity {p}: {got[i]} != (obs - n*(1-p))/p = {want[i]}", {"purity": p, "baf": snap["baf"].tolist()[:40]})
    run.held(mon)


def attach_all(run, rt):
    import cnvlib
    import cnvlib.call as C
    import cnvlib.commands as K
    traced = [("call.do_call", rt.opt(C, "do_call")), ("call.absolute_threshold", rt.opt(C, "absolute_threshold")), ("call._log2_ratio_to_absolute", rt.opt(C, "_log2_ratio_to_absolute")),
              ("call._log2_ratio_to_absolute_pure", rt.opt(C, "_log2_ratio_to_absolute_pure")), ("call.log2_ratios", rt.opt(C, "log2_ratios")),
              ("call.absolute_clonal", rt.opt(C, "absolute_clonal")), ("call.absolute_pure", rt.opt(C, "absolute_pure")), ("call._reference_copies_pure", rt.opt(C, "_reference_copies_pure")),
              ("call.get_as_dframe_and_set_reference_and_expect_copies", rt.opt(C, "get_as_dframe_and_set_reference_and_expect_copies")),
              ("call.rescale_baf", rt.opt(C, "rescale_baf"))]
    rt.attach(C, "do_call", name="call.do_call", pre=pre_do_call, post=post_do_call, on_exc=exc_do_call,
              also=[(K, "do_call"), (cnvlib, "do_call")])
    rt.attach(C, "absolute_threshold", name="call.absolute_threshold", pre=pre_abs_threshold, post=post_abs_threshold)
    rt.attach(C, "rescale_baf", name="call.rescale_baf", pre=pre_rescale_baf, post=post_rescale_baf)
    return traced
