"""Monitors for C20 on cnvlib.export: export_bed, export_vcf, export_seg,
merge_samples (+ fmt_cdt, fmt_jtv), export_nexus_basic.  Expected copies come
from the C01 copy-number model; the VCF body is parsed back with a plain
splitter; sample files are re-read with a plain tab parser.
"""
import math

import numpy as np

from ..gen import cna_records
from ..models import copynumber as CN


def _arg(args, kwargs, pos, name, default=None):
    if len(args) > pos:
        return args[pos]
    return kwargs.get(name, default)


def _isnan(x):
    return x is None or (isinstance(x, float) and math.isnan(x))


def read_tab(path):
    with open(path) as fh:
        lines = [l.rstrip("\n") for l in fh if l.strip()]
    cols = lines[0].split("\t")
    rows = []
    for l in lines[1:]:
        f = l.split("\t")
        r = dict(zip(cols, f))
        r["start"], r["end"] = int(r["start"]), int(r["end"])
        for k in ("log2",):
            if k in r:
                r[k] = float(r[k])
        if "probes" in r:
            r["probes"] = int(float(r["probes"]))
        rows.append(r)
    return cols, rows


def _segs(seg):
    cols = [c for c in ("chromosome", "start", "end", "gene", "log2", "probes", "cn") if c in seg.data.columns]
    return [dict(zip(cols, t)) for t in cna_records(seg, cols)]


def _copies(run, segs, ploidy, male_ref, par, female, has_cn, vcf=False):
    """(ncopies list, expected list, ties) or None when out of domain."""
    xl, yl = CN.labels_for(segs[0]["chromosome"])
    ncop, exp, ties = [], [], 0
    for s in segs:
        cls = CN.region_class(s["chromosome"], s["start"], s["end"], par, xl, yl)
        exp.append(CN.expect_copies(cls, ploidy, female))
        if has_cn:
            ncop.append(s["cn"])
        else:
            if cls in ("parx", "pary"):
                return None        # the statement does not say which reference copies PAR bins have on the no-cn path
            r = CN.ref_copies_pure(s["chromosome"], ploidy, male_ref)
            x = r * 2.0 ** s["log2"]
            if CN.near_half(x):
                ties += 1
                ncop.append(None)
            else:
                ncop.append(int(round(x)))
    return ncop, exp, ties


# ------------------------------------------------------------------------ BED

def pre_bed(run, args, kwargs):
    seg = args[0]
    return {"segs": _segs(seg), "has_cn": "cn" in seg, "ploidy": args[1], "male_ref": bool(args[2]), "par": args[3], "female": bool(args[4]),
            "label": args[5], "show": args[6], "sample_id": seg.sample_id}


def post_bed(run, snap, res, args, kwargs):
    mon = "export.export_bed"
    segs = snap["segs"]
    if not segs:
        return run.ood(mon, "empty")
    if snap["show"] not in ("all", "ploidy", "variant"):
        return run.ood(mon, "unknown-show")
    if any(_isnan(s["log2"]) for s in segs) and not snap["has_cn"]:
        return run.ood(mon, "nan-log2")
    c = _copies(run, segs, snap["ploidy"], snap["male_ref"], snap["par"], snap["female"], snap["has_cn"])
    if c is None:
        return run.ood(mon, "par-without-cn")
    ncop, exp, ties = c
    want = []
    amb = set()
    for s, n, x in zip(segs, ncop, exp):
        key = (s["chromosome"], s["start"], s["end"])
        if n is None:
            amb.add(key)
            continue
        keep = snap["show"] == "all" or (snap["show"] == "ploidy" and n != snap["ploidy"]) or (snap["show"] == "variant" and n != x)
        if keep:
            want.append(key + (snap["label"] if snap["label"] else s["gene"], n))
    got = [(str(r["chromosome"]), int(r["start"]), int(r["end"]), r["label"], r["ncopies"]) for r in res.to_dict("records")]
    got = [g for g in got if g[:3] not in amb]
    wit = {"show": snap["show"], "ploidy": snap["ploidy"], "male_ref": snap["male_ref"], "female": snap["female"], "par": snap["par"], "has_cn": snap["has_cn"],
           "segments": [(s["chromosome"], s["start"], s["end"], s["log2"], s.get("cn")) for s in segs][:40], "got": got[:40], "want": want[:40]}
    for g in got:
        if g[4] != int(g[4]):
            return run.violate(mon, "bed-cn-not-integer", f"row {g}", wit)
    if [g[:3] for g in got] != [w[:3] for w in want]:
        extra = [g for g in got if g[:3] not in {w[:3] for w in want}][:3]
        missing = [w for w in want if w[:3] not in {g[:3] for g in got}][:3]
        return run.violate(mon, f"bed-rows-{snap['show']}" + ("-cn" if snap["has_cn"] else "-nocn"), f"listed-but-should-not {extra}, missing {missing}", wit)
    for g, w in zip(got, want):
        if int(g[4]) != w[4] or g[3] != w[3]:
            return run.violate(mon, "bed-fields", f"row {g}, expected {w}", wit)
    run.held(mon, f"bed:{snap['show']}:{'cn' if snap['has_cn'] else 'nocn'}")


# ------------------------------------------------------------------------ VCF

def pre_vcf(run, args, kwargs):
    seg = args[0]
    return {"segs": _segs(seg), "has_cn": "cn" in seg, "ploidy": args[1], "male_ref": bool(args[2]), "par": args[3], "female": bool(args[4]),
            "sample_id": _arg(args, kwargs, 5, "sample_id") or seg.sample_id, "cnarr": _arg(args, kwargs, 6, "cnarr") is not None}


def post_vcf(run, snap, res, args, kwargs):
    mon = "export.export_vcf"
    segs = snap["segs"]
    if not segs:
        return run.ood(mon, "empty")
    if any("probes" not in s or not isinstance(s["probes"], int) for s in segs):
        return run.ood(mon, "non-integer-probes")      # documented work-around skips such rows
    c = _copies(run, segs, snap["ploidy"], snap["male_ref"], snap["par"], snap["female"], snap["has_cn"], vcf=True)
    if c is None:
        return run.ood(mon, "par-without-cn")
    ncop, exp, ties = c
    header, body = res
    lines = [l for l in body.split("\n") if l]
    cols = lines[0].split("\t")
    recs = [dict(zip(cols, l.split("\t"))) for l in lines[1:]]
    wit = {"ploidy": snap["ploidy"], "male_ref": snap["male_ref"], "female": snap["female"], "par": snap["par"], "has_cn": snap["has_cn"],
           "segments": [(s["chromosome"], s["start"], s["end"], s["log2"], s.get("cn")) for s in segs][:40], "body": lines[:30]}
    if cols[:9] != ["#CHROM", "POS", "ID", "REF", "ALT", "QUAL", "FILTER", "INFO", "FORMAT"] or cols[9] != snap["sample_id"]:
        return run.violate(mon, "vcf-columns", f"columns {cols}", wit)
    want = []
    amb = set()
    for s, n, x in zip(segs, ncop, exp):
        if n is None:
            amb.add((s["chromosome"], s["end"]))
        elif n != x:
            want.append((s, n, x))
    got = []
    for r in recs:
        info = dict(kv.split("=", 1) if "=" in kv else (kv, True) for kv in r["INFO"].split(";"))
        got.append((r, info))
    got = [(r, info) for r, info in got if (r["#CHROM"], int(info.get("END", -1))) not in amb]
    if len(got) != len(want):
        gk = [(r["#CHROM"], int(r["POS"]), int(info.get("END", -1))) for r, info in got]
        wk = [(s["chromosome"], s["start"] or 1, s["end"]) for s, _n, _x in want]
        return run.violate(mon, "vcf-record-set", f"{len(got)} records, {len(want)} segments differ from the expected copy number; records-not-expected {[g for g in gk if g not in wk][:3]}, missing {[w for w in wk if w not in gk][:3]}", wit)
    for (r, info), (s, n, x) in zip(got, want):
        pos = s["start"] if s["start"] != 0 else 1
        svt = "DEL" if n < x else "DUP"
        sv_len = (s["end"] - s["start"]) * (-1 if n < x else 1)
        fmt = r["FORMAT"].split(":")
        sample = dict(zip(fmt, r[cols[9]].split(":")))
        checks = [("chrom", r["#CHROM"] == s["chromosome"]), ("pos", int(r["POS"]) == pos), ("end", int(info.get("END", -1)) == s["end"]),
                  ("svtype", info.get("SVTYPE") == svt and r["ALT"] == f"<{svt}>"), ("svlen", int(info.get("SVLEN", 0)) == sv_len)]
        if n > x:
            checks.append(("cn-in-sample-field", sample.get("CN") is not None and int(sample["CN"]) == n))
        for name, ok in checks:
            if not ok:
                return run.violate(mon, f"vcf-{name}", f"segment {s['chromosome']}:{s['start']}-{s['end']} cn={n} expected={x}: record {r}", wit)
    run.held(mon, f"vcf:{'cn' if snap['has_cn'] else 'nocn'}:{'ci' if snap['cnarr'] else 'noci'}")


# ------------------------------------------------------------------------ SEG

def pre_seg(run, args, kwargs):
    return {"files": list(args[0]), "chrom_ids": _arg(args, kwargs, 1, "chrom_ids", False)}


def post_seg(run, snap, res, args, kwargs):
    mon = "export.export_seg"
    from cnvlib.core import fbase
    want = []
    try:
        for fn in snap["files"]:
            _cols, rows = read_tab(fn)
            sid = fbase(fn)
            for r in sorted(rows, key=lambda r: 0):   # rows as in the file (already sorted by the generator)
                want.append((sid, r["chromosome"], r["start"] + 1, r["end"], r.get("probes"), r["log2"]))
    except Exception:
        return run.ood(mon, "unreadable-sample-file")
    recs = res.to_dict("records")
    got = [(str(r["ID"]), str(r["chrom"]), int(r["loc.start"]), int(r["loc.end"]), (int(r["num.mark"]) if "num.mark" in r and not _isnan(r["num.mark"]) else None), float(r["seg.mean"])) for r in recs]
    wit = {"files": snap["files"], "got": got[:30], "want": want[:30]}
    if len(got) != len(want):
        return run.violate(mon, "seg-row-count", f"{len(got)} rows, samples have {len(want)} segments", wit)
    mapping = {}
    for g, w in zip(got, want):
        if snap["chrom_ids"]:
            if mapping.setdefault(w[1], g[1]) != g[1]:
                return run.violate(mon, "seg-chrom-renumbering", f"chromosome {w[1]} mapped to both {mapping[w[1]]} and {g[1]}", wit)
            g = (g[0], w[1]) + g[2:]
        if g[:5] != w[:5]:
            mech = "seg-start" if g[2] != w[2] else "seg-sample-id" if g[0] != w[0] else "seg-fields"
            return run.violate(mon, mech, f"row {g}, sample file says {w} (1-based start)", wit)
        if abs(g[5] - w[5]) > 1e-9 * max(1, abs(w[5])):
            return run.violate(mon, "seg-mean", f"row {g}, sample file says {w}", wit)
    run.held(mon, f"seg:{len(snap['files'])}samples")


# ------------------------------------------------------- merge_samples / jtv / cdt

def pre_merge(run, args, kwargs):
    return {"files": list(args[0])}


def _sample_tables(files):
    from cnvlib.core import fbase
    out = []
    for fn in files:
        _c, rows = read_tab(fn)
        out.append((fbase(fn), [(f"{r['chromosome']}:{r['start']}-{r['end']}:{r['gene']}", r["log2"]) for r in rows]))
    return out


def post_merge(run, snap, res, args, kwargs):
    mon = "export.merge_samples"
    if not snap["files"]:
        return run.ood(mon, "no-files")
    try:
        samples = _sample_tables(snap["files"])
    except Exception:
        return run.ood(mon, "unreadable-sample-file")
    labels0 = [l for l, _v in samples[0][1]]
    wit = {"files": snap["files"], "samples": [(sid, rows[:4]) for sid, rows in samples]}
    if any([l for l, _v in rows] != labels0 for _sid, rows in samples[1:]):
        return run.violate(mon, "merge-accepted-mismatching-bins", "inputs whose bins differ were merged instead of refused", wit)
    sids = [sid for sid, _r in samples]
    if len(set(sids)) != len(sids):
        return run.violate(mon, "merge-accepted-duplicate-sample", f"duplicate sample IDs {sids} were accepted", wit)
    if len(res) != len(labels0) or res["label"].tolist() != labels0:
        return run.violate(mon, "merge-rows", "not one row per bin with the bin's label", wit)
    for sid, rows in samples:
        if sid not in res.columns:
            return run.violate(mon, "merge-sample-column-missing", f"no column for sample {sid}", wit)
        vals = res[sid].tolist()
        if any(abs(a - b) > 1e-9 * max(1, abs(b)) for a, (_l, b) in zip(vals, rows)):
            return run.violate(mon, "merge-sample-values", f"column {sid} does not hold that sample's log2 values", wit)
    run.held(mon, f"merge:{len(samples)}samples")


def exc_merge(run, snap, exc, args, kwargs):
    mon = "export.merge_samples"
    if snap is None or not snap["files"]:
        return
    try:
        samples = _sample_tables(snap["files"])
    except Exception:
        return run.ood(mon, "unreadable-sample-file")
    labels0 = [l for l, _v in samples[0][1]]
    mismatch = any([l for l, _v in rows] != labels0 for _sid, rows in samples[1:])
    sids = [sid for sid, _r in samples]
    dup = len(set(sids)) != len(sids)
    if isinstance(exc, ValueError) and (mismatch or dup):
        return run.held(mon, "merge:refused-" + ("mismatch" if mismatch else "duplicate-id"))
    run.violate(mon, f"merge-raises-{type(exc).__name__}", f"raised {exc!r} on matching bins and distinct sample IDs", {"files": snap["files"]})


def pre_fmt(run, args, kwargs):
    table = args[1]
    return {"sids": list(args[0]), "labels": table["label"].tolist(), "values": {s: table[s].tolist() for s in args[0]}}


def make_post_fmt(kind):
    def post(run, snap, res, args, kwargs):
        mon = f"export.fmt_{kind}"
        header, rows = res
        rows = [tuple(r) for r in rows]
        skip = 2 if kind == "cdt" else 0
        lab_i = 2 if kind == "cdt" else 1
        first_val = 4 if kind == "cdt" else 2
        body = rows[skip:]
        wit = {"header": list(header), "rows": [list(map(str, r)) for r in rows[:6]], "labels": snap["labels"][:6]}
        if list(header[first_val:]) != snap["sids"]:
            return run.violate(mon, f"{kind}-header", f"header {list(header)} does not list the samples {snap['sids']}", wit)
        if len(body) != len(snap["labels"]) or [r[lab_i] for r in body] != snap["labels"]:
            return run.violate(mon, f"{kind}-rows", "not one row per bin with the bin's label", wit)
        for k, sid in enumerate(snap["sids"]):
            col = [r[first_val + k] for r in body]
            if any(abs(float(a) - b) > 1e-9 * max(1, abs(b)) for a, b in zip(col, snap["values"][sid])):
                return run.violate(mon, f"{kind}-values", f"column {k} is not sample {sid}'s log2", wit)
        run.held(mon)
        return None
    return post


def wrap_fmt_result(kind):
    """fmt_jtv returns a one-shot iterator of rows: materialise it for the monitor and hand an equivalent object on."""
    return None


def pre_nexus(run, args, kwargs):
    return {"recs": cna_records(args[0], ["chromosome", "start", "end", "gene", "log2"])}


def post_nexus(run, snap, res, args, kwargs):
    mon = "export.export_nexus_basic"
    want = [(c, s, e, g, l, f"{c}:{s + 1}-{e}") for c, s, e, g, l in snap["recs"]]
    got = [(r["chromosome"], r["start"], r["end"], r["gene"], r["log2"], r["probe"]) for r in res.to_dict("records")]
    if len(got) != len(want) or any(g[:4] != w[:4] or g[5] != w[5] or not (g[4] == w[4] or (_isnan(g[4]) and _isnan(w[4]))) for g, w in zip(got, want)):
        return run.violate(mon, "nexus-rows", "not one row per bin with the bin's label and log2", {"got": got[:6], "want": want[:6]})
    run.held(mon)


def attach_all(run, rt):
    import cnvlib.export as E
    traced = [("export.export_bed", rt.opt(E, "export_bed")), ("export.export_vcf", rt.opt(E, "export_vcf")), ("export.segments2vcf", rt.opt(E, "segments2vcf")), ("export.export_seg", rt.opt(E, "export_seg")),
              ("export.merge_samples", rt.opt(E, "merge_samples")), ("export.fmt_cdt", rt.opt(E, "fmt_cdt")), ("export.fmt_jtv", rt.opt(E, "fmt_jtv")), ("export.export_nexus_basic", rt.opt(E, "export_nexus_basic"))]
    rt.attach(E, "export_bed", name="export.export_bed", pre=pre_bed, post=post_bed)
    rt.attach(E, "export_vcf", name="export.export_vcf", pre=pre_vcf, post=post_vcf)
    rt.attach(E, "export_seg", name="export.export_seg", pre=pre_seg, post=post_seg)
    rt.attach(E, "merge_samples", name="export.merge_samples", pre=pre_merge, post=post_merge, on_exc=exc_merge)
    rt.attach(E, "export_nexus_basic", name="export.export_nexus_basic", pre=pre_nexus, post=post_nexus)
    # fmt_jtv returns (header, one-shot iterator): wrap so that the rows are a list both for the monitor and the caller
    for kind in ("cdt", "jtv"):
        orig = getattr(E, f"fmt_{kind}")

        def materialised(sample_ids, table, _orig=orig):
            header, rows = _orig(sample_ids, table)
            return header, list(rows)
        materialised.__vmon_orig__ = orig
        setattr(E, f"fmt_{kind}", materialised)
        rt._ATTACHED.append((E, f"fmt_{kind}", orig))
        rt.attach(E, f"fmt_{kind}", name=f"export.fmt_{kind}", pre=pre_fmt, post=make_post_fmt(kind))
        # the command layer looks the formatter up in a registry bound at import time
        if E.EXPORT_FORMATS.get(kind) is orig:
            E.EXPORT_FORMATS[kind] = getattr(E, f"fmt_{kind}")
    return traced
