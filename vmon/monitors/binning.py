"""Monitors for C12 (target.do_target, antitarget.do_antitarget) and C13
(access.get_regions, access.do_access, access.join_regions).  Oracles are the
base-set model of vmon/models/intervals plus a character scan of the FASTA text.
"""
import os

from ..gen import ga_rows
from ..models import intervals as M

PAD = 500
TELOMERE = 150000
# the package's contig-name rule, by category (alt, random, Un, HLA, EBV, mitochondrial, NC_, hap)
NONCANON_EXAMPLES = ("chrUn_gl000220", "chr1_random", "HLA-A", "chrEBV", "chr6_alt", "chrM", "MT", "chr6_apd_hap1", "NC_007605", "chrUn_KI270302v1")
CANON_EXAMPLES = ("chr1", "chr2", "chr3", "chr17", "chrX", "chrY", "1", "2", "10", "X", "Y")


def noncanonical(name):
    """Category membership written out from the statement (alt, random, Un, HLA, EBV, mitochondrial)."""
    return (name.endswith("_alt") or name.endswith("_random") or "Un_" in name or name.startswith("HLA-") or name == "chrEBV"
            or "chrM" in name or "MT" in name or name.startswith("NC") or (len(name) > 4 and name[-4:-1] == "hap" and name[-1].isdigit()))


def _arg(args, kwargs, pos, name, default=None):
    if len(args) > pos:
        return args[pos]
    return kwargs.get(name, default)


# --------------------------------------------------------------------- target

def pre_target(run, args, kwargs):
    b = args[0]
    return {"baits": ga_rows(b, [c for c in b.data.columns if c not in ("chromosome", "start", "end")]), "cols": list(b.data.columns),
            "split": bool(_arg(args, kwargs, 3, "do_split", False)), "avg": _arg(args, kwargs, 4, "avg_size", 200 / 0.75),
            "annotate": _arg(args, kwargs, 1, "annotate"), "short": bool(_arg(args, kwargs, 2, "do_short_names", False))}


def post_target(run, snap, res, args, kwargs):
    mon = "target.do_target"
    baits = snap["baits"]
    nonempty = [b for b in baits if b[2] != b[1]]
    if any(b[2] < b[1] for b in baits):
        return run.ood(mon, "negative-width-bait")
    if not M.is_sorted_table([b[:3] for b in nonempty]):
        return run.ood(mon, "baits-unsorted")
    got = [r[:3] for r in ga_rows(res)]
    wit = {"baits": [b[:3] for b in baits][:60], "split": snap["split"], "avg": snap["avg"], "annotate": bool(snap["annotate"]), "short_names": snap["short"], "got": got[:60]}
    flags = ("+annot" if snap["annotate"] else "") + ("+short" if snap["short"] else "")
    if not snap["split"]:
        if got != [b[:3] for b in nonempty]:
            return run.violate(mon, "target-nosplit-changed" + flags, "without --split the non-empty baits must come back unchanged", wit)
        return run.held(mon, "target:nosplit" + flags)
    avg = snap["avg"]
    # bins in order, non-overlapping
    for p, q in zip(got, got[1:]):
        if p[0] == q[0] and (q[1] < p[2] or q[1] < p[1]):
            return run.violate(mon, "target-bins-overlap" + flags, f"bins {p} and {q} overlap or are out of order", wit)
    if M.chrom_groups(got) is None:
        return run.violate(mon, "target-bins-order" + flags, "a chromosome's bins are not contiguous", wit)
    if M.base_set(got) != M.base_set(nonempty):
        return run.violate(mon, "target-coverage" + flags, "bins do not cover exactly the union of the non-empty baits", wit)
    i = 0
    for c, rs in M.chrom_groups([b[:3] for b in nonempty]) or []:
        for s, e in M.runs([(r[1], r[2]) for r in rs]):
            bins = []
            while i < len(got) and got[i][0] == c and got[i][1] >= s and got[i][2] <= e:
                bins.append(got[i])
                i += 1
            counts = M.subdivide_counts(e - s, avg)
            sizes = [b[2] - b[1] for b in bins]
            if not bins or bins[0][1] != s or bins[-1][2] != e or any(p[2] != q[1] for p, q in zip(bins, bins[1:])) or min(sizes) <= 0:
                return run.violate(mon, "target-region-not-tiled" + flags, f"merged bait {c}:{s}-{e} is not tiled by consecutive bins: {bins[:5]}", wit)
            if len(bins) not in counts:
                return run.violate(mon, "target-bin-count" + flags, f"merged bait {c}:{s}-{e} ({e - s} bp, avg {avg}): {len(bins)} bins, expected {sorted(counts)}", wit)
            if max(sizes) - min(sizes) > 1:
                return run.violate(mon, "target-bins-unequal" + flags, f"merged bait {c}:{s}-{e}: bin sizes {sorted(set(sizes))}", wit)
    if i != len(got):
        return run.violate(mon, "target-extra-bin" + flags, f"bin {got[i]} belongs to no merged bait", wit)
    run.held(mon, "target:split" + flags)


def exc_target(run, snap, exc, args, kwargs):
    mon = "target.do_target"
    if snap is None:
        return
    if isinstance(exc, ValueError) and "Chromosome names do not match" in str(exc):
        return run.ood(mon, "annotation-chromosomes-disjoint")
    nonempty = [b for b in snap["baits"] if b[2] != b[1]]
    if not nonempty or not M.is_sorted_table([b[:3] for b in nonempty]) or any(b[2] < b[1] for b in snap["baits"]):
        return run.ood(mon, "no-baits-or-unsorted")
    run.violate(mon, f"target-raises-{type(exc).__name__}", f"raised {exc!r}", {"baits": [b[:3] for b in snap["baits"]][:60], "split": snap["split"], "annotate": bool(snap["annotate"]), "short_names": snap["short"]})


# ----------------------------------------------------------------- antitarget

def pre_antitarget(run, args, kwargs):
    t = args[0]
    a = _arg(args, kwargs, 1, "access")
    return {"targets": [r[:3] for r in ga_rows(t)], "access": None if a is None or not len(a) else [r[:3] for r in ga_rows(a)],
            "avg": _arg(args, kwargs, 2, "avg_bin_size", 150000), "min": _arg(args, kwargs, 3, "min_bin_size")}


def _expected_space(targets, access):
    tchroms = list(dict.fromkeys(t[0] for t in targets))
    if access is None:
        last = {}
        for t in targets:
            last[t[0]] = t[2]     # end of the chromosome's last target row
        acc = [(c, TELOMERE, last[c]) for c in tchroms if last[c] > TELOMERE]
    else:
        achroms = {a[0] for a in access}
        if not achroms & set(tchroms):
            return None, "disjoint-chromosome-names"
        if not any(not noncanonical(c) for c in tchroms):
            return None, "no-canonical-targeted-contig"
        acc = [a for a in access if a[0] in tchroms or not noncanonical(a[0])]
    shrunk = M.resize_rows(acc, -PAD)
    grown = M.resize_rows(targets, PAD)
    return M.set_subtract(M.base_set(shrunk), M.base_set(grown)), None


def post_antitarget(run, snap, res, args, kwargs):
    mon = "antitarget.do_antitarget"
    targets, access, avg, mn = snap["targets"], snap["access"], snap["avg"], snap["min"]
    if not targets:
        return run.ood(mon, "no-targets")
    if not M.is_sorted_table(targets) or (access is not None and not M.is_sorted_table(access)):
        return run.ood(mon, "unsorted-input-or-zero-width-target")
    band = None
    if not mn:
        mn = 2 * int(avg / 32)          # documented default: 1/16 of the average size
        band = (avg / 16 - 2, avg / 16 + 2)
    if mn > 0.75 * avg - 2:
        return run.ood(mon, "min>0.75avg")     # the statement's two size rules contradict each other there
    space, why = _expected_space(targets, access)
    if space is None:
        return run.ood(mon, why)
    rows = ga_rows(res, ["gene"] if "gene" in res else [])
    got = [r[:3] for r in rows]
    wit = {"targets": targets[:60], "access": None if access is None else access[:60], "avg": avg, "min": mn, "bins": got[:80]}
    if any(len(r) < 4 or r[3] != "Antitarget" for r in rows):
        return run.violate(mon, "antitarget-name", "a bin is not named Antitarget", wit)
    for p, q in zip(got, got[1:]):
        if p[0] == q[0] and q[1] < p[2]:
            return run.violate(mon, "antitarget-bins-overlap", f"bins {p} and {q} overlap", wit)
    G = M.base_set(got)
    stray = M.set_subtract(G, space)
    if stray:
        c = next(iter(stray))
        s, e = stray[c][0]
        near_t = any(t[0] == c and t[1] - PAD < e and t[2] + PAD > s for t in targets)
        nested = M.has_nesting(targets)
        mech = "antitarget-within-500-of-target" + ("-nested-targets" if nested else "") if near_t else "antitarget-outside-shrunk-access"
        return run.violate(mon, mech, f"bins cover {c}:{s}-{e}, which is not off-target accessible space (access shrunk by 500 minus targets padded by 500)", wit)
    for b in got:
        size = b[2] - b[1]
        if size < mn and not (band and band[0] <= size <= band[1]):
            return run.violate(mon, "antitarget-bin-too-small", f"bin {b} has {size} bp < minimum {mn}", wit)
        if size > 1.5 * avg + 1:
            return run.violate(mon, "antitarget-bin-too-large", f"bin {b} has {size} bp > 1.5 x average {avg}", wit)
    must = {}
    for c, rs in space.items():
        keep = [(s, e) for s, e in rs if e - s >= mn and not (band and band[0] <= e - s <= band[1])]
        if keep:
            must[c] = keep
    missing = M.set_subtract(must, G)
    if missing:
        c = next(iter(missing))
        s, e = missing[c][0]
        mech = "antitarget-uncovered-stretch" + ("-untargeted-contig" if c not in {t[0] for t in targets} else "")
        return run.violate(mon, mech, f"{c}:{s}-{e} lies in an off-target accessible stretch of at least the minimum size but no bin covers it", wit)
    run.held(mon, "antitarget:" + ("access" if access is not None else "guessed") + (":nested-targets" if M.has_nesting(targets) else "") + (":default-min" if band else ""))


def exc_antitarget(run, snap, exc, args, kwargs):
    mon = "antitarget.do_antitarget"
    if snap is None or not snap["targets"]:
        return
    if isinstance(exc, ValueError) and "Chromosome names do not match" in str(exc):
        return run.ood(mon, "disjoint-chromosome-names")
    if not M.is_sorted_table(snap["targets"]) or (snap["access"] is not None and not M.is_sorted_table(snap["access"])):
        return run.ood(mon, "unsorted-input")
    run.violate(mon, f"antitarget-raises-{type(exc).__name__}", f"raised {exc!r}", {"targets": snap["targets"][:60], "access": snap["access"] and snap["access"][:60], "avg": snap["avg"], "min": snap["min"]})


def attach_c12(run, rt):
    import cnvlib.target as T
    import cnvlib.antitarget as A
    import cnvlib.commands as K
    traced = [("target.do_target", rt.opt(T, "do_target")), ("target.shorten_labels", rt.opt(T, "shorten_labels")), ("antitarget.do_antitarget", rt.opt(A, "do_antitarget")),
              ("antitarget.get_antitargets", rt.opt(A, "get_antitargets")), ("antitarget.drop_noncanonical_contigs", rt.opt(A, "drop_noncanonical_contigs")),
              ("antitarget.guess_chromosome_regions", rt.opt(A, "guess_chromosome_regions"))]
    rt.attach(T, "do_target", name="target.do_target", pre=pre_target, post=post_target, on_exc=exc_target, also=[(K, "do_target")])
    rt.attach(A, "do_antitarget", name="antitarget.do_antitarget", pre=pre_antitarget, post=post_antitarget, on_exc=exc_antitarget, also=[(K, "do_antitarget")])
    return traced


# ============================================================ C13: access

def fasta_runs(path):
    """[(name, [(s, e)])]: maximal runs of characters other than 'N', by a plain
    character scan of the newline-free sequence."""
    seqs = []
    name, chunks = None, []
    with open(path) as fh:
        for line in fh:
            if line.startswith(">"):
                if name is not None:
                    seqs.append((name, "".join(chunks)))
                name, chunks = line[1:].split(None, 1)[0] if line[1:].split() else "", []
            else:
                chunks.append(line.rstrip())
        if name is not None:
            seqs.append((name, "".join(chunks)))
    out = []
    for name, seq in seqs:
        runs, start = [], None
        for i, ch in enumerate(seq):
            if ch != "N":
                if start is None:
                    start = i
            elif start is not None:
                runs.append((start, i))
                start = None
        if start is not None:
            runs.append((start, len(seq)))
        out.append((name, runs, len(seq)))
    return out


def read_bed3(path):
    rows = []
    with open(path) as fh:
        for line in fh:
            f = line.rstrip("\n").split("\t")
            if len(f) >= 3 and not line.startswith(("track", "#", "browser")):
                rows.append((f[0], int(f[1]), int(f[2])))
    return rows


def pre_get_regions(run, args, kwargs):
    return {"path": args[0]}


def post_get_regions(run, snap, res, args, kwargs):
    mon = "access.get_regions"
    try:
        truth = fasta_runs(snap["path"])
    except Exception:
        return run.ood(mon, "unreadable-fasta")
    names = [t[0] for t in truth]
    if len(set(names)) != len(names):
        return run.ood(mon, "duplicate-sequence-names")
    want = [(n, s, e) for n, runs, _l in truth for s, e in runs]
    got = [(str(c), int(s), int(e)) for c, s, e in res]
    if len(args) + len(kwargs) > 1:
        # called with more than the file name (a refactored caller asking for a
        # selection of sequences): what is reported must still be, per reported
        # sequence and in file order, exactly its runs; which sequences may be
        # left out is judged at do_access
        reported = {g[0] for g in got}
        want = [w for w in want if w[0] in reported]
        run.extra["get_regions:called-with-selection"] += 1
    if got != want:
        extra = [g for g in got if g not in want][:3]
        missing = [w for w in want if w not in got][:3]
        with open(snap["path"]) as fh:
            text = fh.read(3000)
        return run.violate(mon, "non-N-runs", f"reported {extra}, character scan gives {missing}", {"fasta": text, "got": got[:40], "want": want[:40]})
    run.held(mon, "get_regions:" + ("empty" if not want else "runs"))
    run.extra["get_regions:sequences"] += len(truth)


def pre_access(run, args, kwargs):
    return {"path": args[0], "excludes": list(_arg(args, kwargs, 1, "exclude_fnames", ())), "min_gap": _arg(args, kwargs, 2, "min_gap_size", 5000),
            "skip": bool(_arg(args, kwargs, 3, "skip_noncanonical", True))}


def post_access(run, snap, res, args, kwargs):
    mon = "access.do_access"
    try:
        truth = fasta_runs(snap["path"])
        ex = [read_bed3(p) for p in snap["excludes"]]
    except Exception:
        return run.ood(mon, "unreadable-input")
    names = [t[0] for t in truth]
    if len(set(names)) != len(names):
        return run.ood(mon, "duplicate-sequence-names")
    if any(r[2] <= r[1] for rows in ex for r in rows):
        return run.ood(mon, "zero-width-exclude")
    keep = [t for t in truth if not (snap["skip"] and noncanonical(t[0]))]
    space = {n: runs for n, runs, _l in keep if runs}
    for rows in ex:
        space = M.set_subtract(space, M.base_set(rows))
    mg = snap["min_gap"] or 0
    want = []
    for n, _runs, _l in keep:
        cur = None
        for s, e in space.get(n, []):
            if cur is not None and s - cur[1] < mg:
                cur[1] = e
            else:
                if cur is not None:
                    want.append((n, cur[0], cur[1]))
                cur = [s, e]
        if cur is not None:
            want.append((n, cur[0], cur[1]))
    got = ga_rows(res)
    got = [g[:3] for g in got]
    with open(snap["path"]) as fh:
        text = fh.read(3000)
    wit = {"fasta": text, "excludes": [rows[:30] for rows in ex], "min_gap": snap["min_gap"], "skip_noncanonical": snap["skip"], "got": got[:40], "want": want[:40]}
    # universal clauses
    for g in got:
        if g[2] <= g[1]:
            return run.violate(mon, "access-empty-region", f"empty region {g}", wit)
    for p, q in zip(got, got[1:]):
        if p[0] == q[0] and q[1] <= p[2]:
            return run.violate(mon, "access-regions-touch", f"regions {p} and {q} are unsorted or touch", wit)
    if sorted(got) != sorted(want) or M.chrom_groups(got) is None:
        extra = [g for g in got if g not in want][:3]
        missing = [w for w in want if w not in got][:3]
        dropped = snap["skip"] and any(noncanonical(g[0]) for g in got)
        lost = [w for w in missing if w[0] not in {g[0] for g in got}]
        if dropped:
            mech = "access-noncanonical-kept"
        elif lost and not snap["skip"]:
            mech = "access-contig-dropped"
        elif ex and any(x for x in extra):
            mech = "access-exclude"
        else:
            mech = "access-join" if mg else "access-runs"
        return run.violate(mon, mech, f"reported {extra}, expected {missing}", wit)
    run.held(mon, "access:" + (f"{len(ex)}excl" if ex else "noexcl") + (":join" if mg else ":nojoin") + (":skip" if snap["skip"] else ""))


def exc_access(run, snap, exc, args, kwargs):
    mon = "access.do_access"
    if snap is None:
        return
    try:
        ex = [read_bed3(p) for p in snap["excludes"]]
        fasta_runs(snap["path"])
    except Exception:
        return run.ood(mon, "unreadable-input")
    if any(r[2] <= r[1] for rows in ex for r in rows):
        return run.ood(mon, "zero-width-exclude")
    with open(snap["path"]) as fh:
        text = fh.read(3000)
    run.violate(mon, f"access-raises-{type(exc).__name__}", f"raised {exc!r}", {"fasta": text, "excludes": [rows[:30] for rows in ex], "min_gap": snap["min_gap"]})


def attach_c13(run, rt):
    import cnvlib.access as A
    import cnvlib.commands as K
    traced = [("access.get_regions", rt.opt(A, "get_regions")), ("access.do_access", rt.opt(A, "do_access")), ("access.join_regions", rt.opt(A, "join_regions")),
              ("access.drop_noncanonical_contigs", rt.opt(A, "drop_noncanonical_contigs"))]
    rt.attach(A, "get_regions", name="access.get_regions", pre=pre_get_regions, post=post_get_regions, generator=True)
    rt.attach(A, "do_access", name="access.do_access", pre=pre_access, post=post_access, on_exc=exc_access, also=[(K, "do_access")])
    return traced
