"""Monitors for C18: tabio.read(fmt='vcf') against the generator's record list,
vcfio._choose_samples against the documented selection rule,
cmdutil.load_het_snps, VariantArray.baf_by_ranges / mirrored_baf / tumor_boost
/ heterozygous.
"""
import math
import os

import numpy as np

from ..gen import cna_records

VCF_TRUTH = {}   # abspath -> {"samples": [...], "pedigree": [(tumor, normal)], "records": [rec]}
# rec: {"chrom","pos"(1-based),"ref","alt","somatic":bool,"info_dp":int|None, "fmt": {"GT":bool,"AD":bool,"DP":bool}, "gt":{sid:(a,b)}, "ad":{sid:(r,a)}, "dp":{sid:int}}


def register_vcf(path, truth):
    VCF_TRUTH[os.path.abspath(path)] = truth


def _arg(args, kwargs, pos, name, default=None):
    if len(args) > pos:
        return args[pos]
    return kwargs.get(name, default)


def _isnan(x):
    return x is None or (isinstance(x, float) and math.isnan(x))


def choose(samples, pedigree, sample_id, normal_id):
    """The documented selection rule."""
    if isinstance(sample_id, int):
        sample_id = samples[sample_id]
    if isinstance(normal_id, int):
        normal_id = samples[normal_id]
    if pedigree:
        pairs = list(pedigree)
    elif normal_id:
        pairs = [(s, normal_id) for s in samples if s != normal_id]
    else:
        pairs = [(s, None) for s in samples]
    if sample_id:
        pairs = [p for p in pairs if p[0] == sample_id] or [(sample_id, None)]
    return pairs[0]


def _geno(rec, sid):
    gt = rec["gt"][sid]
    if rec["fmt"]["DP"]:
        depth = rec["dp"][sid]
    elif rec["fmt"]["AD"]:
        depth = sum(rec["ad"][sid])
    elif rec["info_dp"] is not None:
        depth = rec["info_dp"]
    else:
        depth = None
    alleles = set(gt)
    zyg = 0.5 if len(alleles) > 1 else 0.0 if alleles == {0} else 1.0
    alt = rec["ad"][sid][1] if rec["fmt"]["AD"] else None
    return depth, zyg, alt


def expected_rows(truth, sid, nid, min_depth=None, skip_somatic=False):
    rows = []
    for rec in truth["records"]:
        d, z, a = _geno(rec, sid)
        row = {"chromosome": rec["chrom"], "start": rec["pos"] - 1, "ref": rec["ref"], "alt": rec["alt"], "somatic": rec["somatic"],
               "zygosity": z, "depth": 0.0 if d is None else float(d), "alt_count": 0.0 if a is None else float(a)}
        row["alt_freq"] = (a / d) if (a is not None and d) else 0.0
        if nid:
            nd, nz, na = _geno(rec, nid)
            row.update(n_zygosity=nz, n_depth=0.0 if nd is None else float(nd), n_alt_count=0.0 if na is None else float(na))
            row["n_alt_freq"] = (na / nd) if (na is not None and nd) else 0.0
        rows.append(row)
    if min_depth and any(r["depth"] for r in rows):
        key = "n_depth" if nid else "depth"
        rows = [r for r in rows if r[key] >= min_depth]
    if skip_somatic:
        rows = [r for r in rows if not r["somatic"]]
    return rows


# ------------------------------------------------------------------ read(vcf)

def pre_read(run, args, kwargs):
    fmt = _arg(args, kwargs, 1, "fmt", "tab")
    if fmt != "vcf" or not isinstance(args[0], str):
        return None
    return {"path": os.path.abspath(args[0]), "sample_id": kwargs.get("sample_id"), "normal_id": kwargs.get("normal_id"),
            "min_depth": kwargs.get("min_depth"), "skip_somatic": bool(kwargs.get("skip_somatic", False)), "skip_reject": bool(kwargs.get("skip_reject", False))}


def post_read(run, snap, res, args, kwargs):
    mon = "tabio.read[vcf]"
    if snap is None:
        return
    truth = VCF_TRUTH.get(snap["path"])
    if truth is None:
        return run.ood(mon, "no-ground-truth")
    if snap["skip_reject"]:
        return run.ood(mon, "skip_reject")
    sid, nid = choose(truth["samples"], truth["pedigree"], snap["sample_id"], snap["normal_id"])
    want = expected_rows(truth, sid, nid, snap["min_depth"], snap["skip_somatic"])
    cols = list(res.data.columns)
    got = [dict(zip(cols, t)) for t in cna_records(res, cols)]
    wit = {"selectors": {k: snap[k] for k in ("sample_id", "normal_id", "min_depth", "skip_somatic")}, "samples": truth["samples"], "pedigree": truth["pedigree"],
           "chosen_by_rule": [sid, nid], "records": truth["records"][:12], "got": got[:12]}
    paired_cols = {"n_zygosity", "n_depth", "n_alt_count", "n_alt_freq"}
    if got and bool(nid) != bool(paired_cols & set(cols)):
        return run.violate(mon, "vcf-wrong-pairing", f"rule selects tumour {sid} / normal {nid} but the table {'has' if paired_cols & set(cols) else 'lacks'} normal columns", wit)
    gk = sorted((g["chromosome"], g["start"], g["alt"]) for g in got)
    wk = sorted((w["chromosome"], w["start"], w["alt"]) for w in want)
    if gk != wk:
        extra = [k for k in gk if k not in wk][:3]
        missing = [k for k in wk if k not in gk][:3]
        if extra and missing and extra[0][0] == missing[0][0] and abs(extra[0][1] - missing[0][1]) == 1:
            mech = "vcf-start-off-by-one"
        elif len(gk) > len(wk):
            mech = "vcf-filter-kept-record" + ("-depth" if snap["min_depth"] else "") + ("-somatic" if snap["skip_somatic"] else "")
        elif len(gk) < len(wk):
            mech = "vcf-filter-dropped-record" + ("-depth" if snap["min_depth"] else "") + ("-somatic" if snap["skip_somatic"] else "")
        else:
            mech = "vcf-records-differ"
        return run.violate(mon, mech, f"rows-not-in-file {extra}, records-missing {missing}", wit)
    wd = {(w["chromosome"], w["start"], w["alt"]): w for w in want}
    for g in got:
        w = wd[(g["chromosome"], g["start"], g["alt"])]
        for f in [k for k in w if k not in ("chromosome", "start", "alt")]:
            a, b = g.get(f), w[f]
            ok = (a == b) if isinstance(b, (str, bool)) else (not _isnan(a) and abs(float(a) - float(b)) <= 1e-12 + 1e-9 * abs(float(b)))
            if isinstance(b, bool):
                ok = bool(a) == b
            if not ok:
                return run.violate(mon, f"vcf-field-{f}", f"{g['chromosome']}:{g['start'] + 1} sample {sid}/{nid}: {f} = {a!r}, the file says {b!r}", wit)
    # sortedness within chromosome: rows attached to coordinates
    run.held(mon, "vcf:" + ("paired" if nid else "single") + (":min_depth" if snap["min_depth"] else "") + (":skip_somatic" if snap["skip_somatic"] else ""))


def exc_read(run, snap, exc, args, kwargs):
    mon = "tabio.read[vcf]"
    if snap is None or VCF_TRUTH.get(snap["path"]) is None:
        return
    truth = VCF_TRUTH[snap["path"]]
    for s in (snap["sample_id"], snap["normal_id"]):
        if isinstance(s, str) and s not in truth["samples"]:
            return run.ood(mon, "unknown-sample")    # documented IndexError
    run.violate(mon, f"vcf-read-raises-{type(exc).__name__}", f"raised {exc!r}", {"selectors": {k: snap[k] for k in ("sample_id", "normal_id", "min_depth", "skip_somatic")}, "samples": truth["samples"]})


def post_choose(run, snap, res, args, kwargs):
    mon = "vcfio._choose_samples"
    reader = args[0]
    try:
        path = os.path.abspath(reader.filename.decode() if isinstance(reader.filename, bytes) else reader.filename)
    except Exception:
        return run.ood(mon, "no-filename")
    truth = VCF_TRUTH.get(path)
    if truth is None:
        return run.ood(mon, "no-ground-truth")
    want = choose(truth["samples"], truth["pedigree"], _arg(args, kwargs, 1, "sample_id"), _arg(args, kwargs, 2, "normal_id"))
    if tuple(res) != tuple(want):
        mech = "choose-pedigree" if truth["pedigree"] else "choose-given-ids" if (_arg(args, kwargs, 1, "sample_id") is not None or _arg(args, kwargs, 2, "normal_id") is not None) else "choose-first-sample"
        return run.violate(mon, mech, f"selected {tuple(res)}, the documented rule gives {tuple(want)}",
                           {"samples": truth["samples"], "pedigree": truth["pedigree"], "sample_id": _arg(args, kwargs, 1, "sample_id"), "normal_id": _arg(args, kwargs, 2, "normal_id")})
    run.held(mon, "choose:" + ("pedigree" if truth["pedigree"] else "ids" if (_arg(args, kwargs, 1, "sample_id") is not None or _arg(args, kwargs, 2, "normal_id") is not None) else "first"))


# -------------------------------------------------------------- load_het_snps

def pre_het(run, args, kwargs):
    if not isinstance(args[0], str):
        return None
    return {"path": os.path.abspath(args[0]), "sample_id": _arg(args, kwargs, 1, "sample_id"), "normal_id": _arg(args, kwargs, 2, "normal_id"),
            "min_depth": _arg(args, kwargs, 3, "min_variant_depth", 20), "zf": _arg(args, kwargs, 4, "zygosity_freq"), "boost": bool(_arg(args, kwargs, 5, "tumor_boost", False))}


def post_het(run, snap, res, args, kwargs):
    mon = "cmdutil.load_het_snps"
    if snap is None:
        return
    truth = VCF_TRUTH.get(snap["path"])
    if truth is None:
        return run.ood(mon, "no-ground-truth")
    sid, nid = choose(truth["samples"], truth["pedigree"], snap["sample_id"], snap["normal_id"])
    rows = expected_rows(truth, sid, nid, snap["min_depth"], True)
    zf = snap["zf"]
    if zf is None and nid and not any(r["n_zygosity"] for r in rows):
        return run.ood(mon, "normal-all-homref-workaround")
    if zf is not None:
        def z(f):
            return 1.0 if f >= 1 - zf else 0.0 if f < zf else 0.5
        for r in rows:
            r["zygosity"] = z(r["alt_freq"])
            if nid:
                r["n_zygosity"] = z(r["n_alt_freq"])
    if nid:
        rows = [r for r in rows if not (r["zygosity"] != 0.0 and r["n_zygosity"] == 0.0)]
    gz = "n_zygosity" if nid else "zygosity"
    hets = [r for r in rows if r[gz] == 0.5]
    if not hets:
        return run.ood(mon, "no-heterozygous-record")     # documented: everything is returned then
    got = sorted((c, s) for c, s in cna_records(res, ["chromosome", "start"]))
    want = sorted((r["chromosome"], r["start"]) for r in hets)
    if got != want:
        wit = {"selectors": {k: snap[k] for k in ("sample_id", "normal_id", "min_depth", "zf")}, "chosen_by_rule": [sid, nid], "records": truth["records"][:12],
               "kept": got[:20], "germline_het": want[:20]}
        mech = "het-kept-non-het" if set(got) - set(want) else "het-dropped-het"
        return run.violate(mon, mech + ("-paired" if nid else "") + ("-zygosity_freq" if zf is not None else ""), f"kept-but-not-germline-het {sorted(set(got) - set(want))[:3]}, het-but-dropped {sorted(set(want) - set(got))[:3]}", wit)
    run.held(mon, "het:" + ("paired" if nid else "single") + (":zygosity_freq" if zf is not None else ""))


# -------------------------------------------------------------- VariantArray

def _het_subset(recs, cols):
    if "zygosity" in cols:
        key = "n_zygosity" if "n_zygosity" in cols else "zygosity"
        h = [r for r in recs if r[key] not in (0.0, 1.0)]
        if h:
            return h
    return recs


def pre_baf(run, args, kwargs):
    va, ranges = args[0], args[1]
    cols = list(va.data.columns)
    keep = [c for c in ("chromosome", "start", "end", "alt_freq", "n_alt_freq", "zygosity", "n_zygosity") if c in cols]
    return {"cols": keep, "recs": [dict(zip(keep, t)) for t in cna_records(va, keep)], "ranges": cna_records(ranges, ["chromosome", "start", "end"]),
            "summary": _arg(args, kwargs, 2, "summary_func", np.nanmedian), "above": _arg(args, kwargs, 3, "above_half"), "boost": bool(_arg(args, kwargs, 4, "tumor_boost", False))}


def _tboost(t, n):
    if _isnan(t) or _isnan(n) or (t < n and n == 0) or (t >= n and n == 1):
        return float("nan")
    return 0.5 * t / n if t < n else 1 - 0.5 * (1 - t) / (1 - n)


def post_baf(run, snap, res, args, kwargs):
    mon = "VariantArray.baf_by_ranges"
    if "alt_freq" not in snap["cols"]:
        return run.ood(mon, "no-alt_freq")
    if snap["summary"] is not np.nanmedian:
        return run.ood(mon, "non-default-summary")
    above = snap["above"]          # None: the majority side of each range; True/False: the caller names the side
    recs = _het_subset(snap["recs"], snap["cols"])
    if snap["boost"] and "n_alt_freq" in snap["cols"]:
        recs = [dict(r, alt_freq=_tboost(r["alt_freq"], r["n_alt_freq"])) for r in recs]
    ranges = snap["ranges"]
    got = [None if _isnan(v) else float(v) for v in np.asarray(res, float).tolist()]
    wit = {"ranges": ranges[:30], "het_snvs": [(r["chromosome"], r["start"], r["alt_freq"]) for r in recs][:60], "got": got[:30]}
    if len(got) != len(ranges):
        return run.violate(mon, "baf-length", f"{len(ranges)} ranges, {len(got)} values", wit)
    ties = 0
    bt = "-tumor_boost" if (snap["boost"] and "n_alt_freq" in snap["cols"]) else ""
    for (c, s, e), g in zip(ranges, got):
        vals = [r["alt_freq"] for r in recs if r["chromosome"] == c and r["end"] > s and r["start"] < e and not _isnan(r["alt_freq"])]
        if not vals:
            if g is not None:
                return run.violate(mon, "baf-not-missing" + bt, f"{c}:{s}-{e} holds no heterozygous SNV but BAF = {g}", wit)
            continue
        if g is None:
            return run.violate(mon, "baf-missing" + bt, f"{c}:{s}-{e} holds {len(vals)} heterozygous SNVs but BAF is missing", wit)
        med = float(np.median(vals))
        m = float(np.median([abs(v - 0.5) for v in vals]))
        if len(vals) == 1:
            ok = abs(g - vals[0]) <= 1e-12 or abs(g - (1 - vals[0])) <= 1e-12     # one value: either side is 'one side'
        elif above is not None:
            ok = abs(g - (0.5 + m if above else 0.5 - m)) <= 1e-9
        elif abs(med - 0.5) <= 1e-9:
            ties += 1
            ok = abs(g - (0.5 + m)) <= 1e-9 or abs(g - (0.5 - m)) <= 1e-9
        else:
            ok = abs(g - (0.5 + m if med > 0.5 else 0.5 - m)) <= 1e-9
        if not ok:
            side = "wrong-side" if abs(g - (0.5 - m if med > 0.5 else 0.5 + m)) <= 1e-9 else "value"
            return run.violate(mon, f"baf-{side}" + bt, f"{c}:{s}-{e}: BAF {g}, median of the {len(vals)} frequencies mirrored to the majority side is {0.5 + m if med > 0.5 else 0.5 - m}", wit)
    run.held(mon, "baf:" + ("boost" if snap["boost"] else "plain") + ("" if above is None else ":side-given"))


def pre_va(run, args, kwargs):
    va = args[0]
    keep = [c for c in ("alt_freq", "n_alt_freq") if c in va.data.columns]
    return {c: va.data[c].to_numpy(float).copy() for c in keep}


def post_tumor_boost(run, snap, res, args, kwargs):
    mon = "VariantArray.tumor_boost"
    t, n = snap["alt_freq"], snap["n_alt_freq"]
    want = np.array([_tboost(a, b) for a, b in zip(t, n)])
    ok = ~np.isnan(want)
    got = np.asarray(res, float)
    bad = ok & ~(np.abs(got - want) <= 1e-12)
    if bad.any():
        i = int(np.argmax(bad))
        return run.violate(mon, "tumor-boost-formula", f"t={t[i]}, n={n[i]}: {got[i]} != {want[i]}", {"t": t[:20].tolist(), "n": n[:20].tolist()})
    run.held(mon)


def post_mirrored(run, snap, res, args, kwargs):
    mon = "VariantArray.mirrored_baf"
    above = _arg(args, kwargs, 1, "above_half")
    boost = bool(_arg(args, kwargs, 2, "tumor_boost", False))
    if "alt_freq" not in snap:
        return run.ood(mon, "no-alt_freq")
    v = snap["alt_freq"]
    if boost and "n_alt_freq" in snap:
        n = snap["n_alt_freq"]
        v = np.array([_tboost(a, b) for a, b in zip(v, n)])
    if not len(v) or np.isnan(v).all():
        return run.ood(mon, "empty")
    med = np.nanmedian(v)
    if above is None and abs(med - 0.5) <= 1e-9:
        return run.ood(mon, "median-at-0.5")
    up = bool(above) if above is not None else med > 0.5
    want = 0.5 + np.abs(v - 0.5) if up else 0.5 - np.abs(v - 0.5)
    got = np.asarray(res, float)
    bad = ~np.isnan(want) & ~(np.abs(got - want) <= 1e-12)
    if got.shape != want.shape or bad.any():
        return run.violate(mon, "mirrored-baf", f"values not mirrored to the {'upper' if up else 'lower'} side of 0.5", {"alt_freq": v[:20].tolist(), "got": got[:20].tolist()})
    run.held(mon)


# ---- do_call(variants=...): the BAF column stays attached to the segment's own coordinates

def _baf_admissible(vals):
    """Admissible BAF values for the heterozygous frequencies inside a range (docstring rule; ties either side)."""
    if not vals:
        return None
    med = float(np.median(vals))
    m = float(np.median([abs(v - 0.5) for v in vals]))
    if len(vals) == 1:
        return [vals[0], 1 - vals[0]]
    if abs(med - 0.5) <= 1e-9:
        return [0.5 + m, 0.5 - m]
    return [0.5 + m if med > 0.5 else 0.5 - m]


def pre_call_baf(run, args, kwargs):
    variants = args[1] if len(args) > 1 else kwargs.get("variants")
    if variants is None or not hasattr(variants, "data") or not len(variants):
        return None
    filters = args[8] if len(args) > 8 else kwargs.get("filters")
    purity = args[4] if len(args) > 4 else kwargs.get("purity")
    cols = list(variants.data.columns)
    keep = [c for c in ("chromosome", "start", "end", "alt_freq", "n_alt_freq", "zygosity", "n_zygosity") if c in cols]
    return {"cols": keep, "recs": [dict(zip(keep, t)) for t in cna_records(variants, keep)], "filters": list(filters) if filters else [],
            "purity": purity, "segs": cna_records(args[0], ["chromosome", "start", "end"]), "index_default": list(args[0].data.index) == list(range(len(args[0])))}


def post_call_baf(run, snap, res, args, kwargs):
    mon = "call.do_call[baf-attached]"
    if snap is None:
        return
    # ci / sem merge segments *before* the BAF is attached, so every output segment still carries the median of its own SNVs;
    # cn / ampdel merge afterwards and average the pieces' values (that aggregation is C14's business)
    pre_only = set(snap["filters"]) <= {"ci", "sem"}
    if not pre_only or "alt_freq" not in snap["cols"] or "baf" not in res.data.columns:
        return run.ood(mon, "post-calling-filters-or-no-frequencies")
    if snap["purity"] and snap["purity"] < 1.0:
        return run.ood(mon, "baf-rescaled-for-purity")
    out = cna_records(res, ["chromosome", "start", "end", "baf"])
    if [o[:3] for o in out] != snap["segs"]:
        if not snap["filters"]:
            return run.ood(mon, "rows-changed")
        run.extra["call-baf:judged-on-merged-segments"] += 1
    recs = _het_subset(snap["recs"], snap["cols"])
    wit = {"segments": out[:40], "het_snvs": [(r["chromosome"], r["start"], r["alt_freq"]) for r in recs][:80], "default_row_labels": snap["index_default"]}
    for c, s, e, g in out:
        vals = [r["alt_freq"] for r in recs if r["chromosome"] == c and r["end"] > s and r["start"] < e and not _isnan(r["alt_freq"])]
        adm = _baf_admissible(vals)
        if adm is None:
            if not _isnan(g):
                return run.violate(mon, "call-baf-on-segment-without-snvs", f"{c}:{s}-{e} holds no heterozygous SNV but carries baf={g}", wit)
        elif _isnan(g) or not any(abs(g - a) <= 1e-9 for a in adm):
            return run.violate(mon, "call-baf-from-another-segment", f"{c}:{s}-{e}: baf={g}, its own heterozygous SNVs give {adm}", wit)
    run.held(mon, "call-baf:" + ("default-labels" if snap["index_default"] else "odd-labels"))


def attach_all(run, rt):
    import skgenome.tabio as T
    from skgenome.tabio import vcfio
    import cnvlib.cmdutil as U
    import cnvlib.commands as K
    from cnvlib.vary import VariantArray as VA
    import cnvlib.vary as V
    traced = [("vcfio.read_vcf", rt.opt(vcfio, "read_vcf")), ("vcfio._choose_samples", rt.opt(vcfio, "_choose_samples")), ("vcfio._parse_pedigrees", rt.opt(vcfio, "_parse_pedigrees")),
              ("vcfio._parse_records", rt.opt(vcfio, "_parse_records")), ("vcfio._extract_genotype", rt.opt(vcfio, "_extract_genotype")), ("vcfio._get_alt_count", rt.opt(vcfio, "_get_alt_count")),
              ("cmdutil.load_het_snps", rt.opt(U, "load_het_snps")), ("vary.baf_by_ranges", rt.opt(VA, "baf_by_ranges")), ("vary.heterozygous", rt.opt(VA, "heterozygous")),
              ("vary._mirrored_baf", rt.opt(V, "_mirrored_baf")), ("vary._tumor_boost", rt.opt(V, "_tumor_boost")), ("vary.zygosity_from_freq", rt.opt(VA, "zygosity_from_freq"))]
    rt.attach(T, "read", name="tabio.read[vcf]", pre=pre_read, post=post_read, on_exc=exc_read)
    rt.attach(vcfio, "_choose_samples", name="vcfio._choose_samples", post=post_choose)
    rt.attach(U, "load_het_snps", name="cmdutil.load_het_snps", pre=pre_het, post=post_het, also=[(K, "load_het_snps")])
    rt.attach(VA, "baf_by_ranges", name="VariantArray.baf_by_ranges", pre=pre_baf, post=post_baf)
    rt.attach(VA, "tumor_boost", name="VariantArray.tumor_boost", pre=pre_va, post=post_tumor_boost)
    rt.attach(VA, "mirrored_baf", name="VariantArray.mirrored_baf", pre=pre_va, post=post_mirrored)
    import cnvlib.call as CL
    rt.attach(CL, "do_call", name="call.do_call[baf-attached]", pre=pre_call_baf, post=post_call_baf, also=[(K, "do_call")])
    return traced
