"""Purity wrappers (C10): for every monitored operation

* every argument (arrays, lists, tuples, dicts, nested) is fingerprinted before
  and after the call -- a difference is a caller-visible mutation (cached
  chromosome labels in an array's metadata are excluded by the fingerprint);
* the map (operation, argument fingerprint without worker count) -> result
  fingerprint is kept for the whole shard: a second, different result for the
  same key means the result depended on something else (workers, RNG state,
  call history);
* for cases executed in every shard (different processes and PYTHONHASHSEED)
  the result fingerprints are exported per (case, step) and compared after the
  shards are merged.

ensure_path is watched as an invariant hook: the multiset of file contents
under the path's numbered family is the same before and after, and the path
itself is free afterwards.
"""
import hashlib
import inspect
import os

from .. import runtime as rt_mod

IGNORE_IN_KEY = ("processes", "rscript_path", "save_dataframe")


def _bind(sig, args, kwargs):
    try:
        b = sig.bind_partial(*args, **kwargs)
        return dict(b.arguments)
    except TypeError:
        d = {f"arg{i}": a for i, a in enumerate(args)}
        d.update(kwargs)
        return d


def _context(run):
    c = dict(getattr(run._tls, "pure_ctx", None) or {})
    c["pid"] = os.getpid()
    c["hashseed"] = os.environ.get("PYTHONHASHSEED")
    return c


def make(op, orig, mutates_self=False, generator=False):
    sig = None
    try:
        sig = inspect.signature(orig)
    except (TypeError, ValueError):
        pass

    def pre(run, args, kwargs):
        named = _bind(sig, args, kwargs) if sig else {f"arg{i}": a for i, a in enumerate(args)}
        fps = {k: rt_mod.fingerprint(v) for k, v in named.items()}
        key = rt_mod.fingerprint([op, sorted((k, v) for k, v in fps.items() if k not in IGNORE_IN_KEY)])
        return {"fps": fps, "key": key, "named": named, "procs": named.get("processes")}

    def _after(run, snap, result_fp, outcome):
        mon = "purity"
        fps = snap["fps"]
        ok = True
        for k, v in snap["named"].items():
            if mutates_self and k == "self":
                continue
            after = rt_mod.fingerprint(v)
            if after != fps[k]:
                ok = False
                run.violate(mon, f"argument-mutated:{op}:{k}", f"{op}: argument {k!r} ({type(v).__name__}) changed during the call",
                            {"operation": op, "argument": k, "before_fp": fps[k], "after_fp": after, "after": v, "context": _context(run)})
        hist = run.__dict__.setdefault("_pure_hist", {})
        ctx = _context(run)
        ctx["processes"] = snap["procs"]
        if snap["key"] in hist:
            first_fp, first_ctx = hist[snap["key"]]
            if first_fp != result_fp:
                ok = False
                run.violate(mon, f"result-not-a-function-of-arguments:{op}", f"{op}: equal arguments gave different results (contexts {first_ctx} vs {ctx})",
                            {"operation": op, "first": first_ctx, "second": ctx, "arguments": {k: v for k, v in snap["named"].items() if k != "self"}})
            else:
                run.extra[f"repeat-agreed:{op}"] += 1
                if first_ctx.get("processes") != ctx.get("processes"):
                    run.extra[f"agreed-across-worker-counts:{op}"] += 1
                if first_ctx.get("rng") != ctx.get("rng"):
                    run.extra[f"agreed-across-rng-states:{op}"] += 1
                if first_ctx.get("history") != ctx.get("history"):
                    run.extra[f"agreed-across-call-histories:{op}"] += 1
        else:
            hist[snap["key"]] = (result_fp, ctx)
        xp = getattr(run._tls, "pure_xp", None)
        if xp is not None:
            xp["n"] += 1
            run.sets[f"xp|{xp['case']}|{xp['n']}|{op}"].add(result_fp)
        if ok:
            run.held(mon, f"op:{op}")
        run.log_event({"ev": "op", "op": op, "key": snap["key"], "result": result_fp, "outcome": outcome, "ctx": ctx})

    def post(run, snap, res, args, kwargs):
        if mutates_self:
            res = snap["named"].get("self")
        _after(run, snap, rt_mod.fingerprint(res), "return")

    def on_exc(run, snap, exc, args, kwargs):
        if snap is None:
            return
        _after(run, snap, "raise:" + type(exc).__name__, "raise")

    return pre, post, on_exc


def attach(rt, owner, attr, op, **kw):
    raw = owner.__dict__[attr] if isinstance(owner, type) else getattr(owner, attr)
    orig = getattr(raw, "__func__", raw)
    pre, post, on_exc = make(op, rt.original(orig), mutates_self=kw.pop("mutates_self", False))
    return rt.attach(owner, attr, name=f"purity[{op}]", pre=pre, post=post, on_exc=on_exc, **kw)


# ---------------------------------------------------------------- ensure_path

def _family(fname):
    d = os.path.dirname(os.path.abspath(fname)) or "."
    base = os.path.basename(fname)
    out = {}
    if os.path.isdir(d):
        for fn in os.listdir(d):
            if fn == base or (fn.startswith(base + ".") and fn[len(base) + 1:].isdigit()):
                with open(os.path.join(d, fn), "rb") as fh:
                    out[fn] = hashlib.sha1(fh.read()).hexdigest()
    return out


def pre_ensure(run, args, kwargs):
    return {"fname": args[0], "before": _family(args[0])}


def post_ensure(run, snap, res, args, kwargs):
    mon = "core.ensure_path"
    before, after = snap["before"], _family(snap["fname"])
    wit = {"path": snap["fname"], "before": before, "after": after}
    if sorted(before.values()) != sorted(after.values()):
        return run.violate(mon, "existing-output-lost-or-overwritten", f"{len(before)} files before, {len(after)} after; contents differ", wit)
    if os.path.basename(snap["fname"]) in after:
        return run.violate(mon, "path-not-cleared", "the requested path still holds the old file, the next write would overwrite it", wit)
    run.held(mon, f"ensure:{min(len(before), 6)}-existing")


def attach_all(run, rt):
    import cnvlib.commands as CM
    import cnvlib.target as T
    import cnvlib.antitarget as AT
    import cnvlib.fix as FX
    import cnvlib.segmentation as S
    import cnvlib.segmetrics as SM
    import cnvlib.call as CL
    import cnvlib.reports as RP
    import cnvlib.bintest as BT
    import cnvlib.metrics as MT
    import cnvlib.export as EX
    import cnvlib.core as CORE
    from cnvlib.cnary import CopyNumArray
    from skgenome import GenomicArray
    traced = [("call.do_call", rt.opt(CL, "do_call")), ("segmentation.do_segmentation", rt.opt(S, "do_segmentation")), ("fix.center_by_window", rt.opt(FX, "center_by_window")),
              ("segmetrics.do_segmetrics", rt.opt(SM, "do_segmetrics")), ("segmetrics.make_ci_func", rt.opt(SM, "make_ci_func")), ("core.ensure_path", rt.opt(CORE, "ensure_path")),
              ("CopyNumArray.by_gene", rt.opt(CopyNumArray, "by_gene")), ("GenomicArray.shuffle", rt.opt(GenomicArray, "shuffle")), ("bintest.do_bintest", rt.opt(BT, "do_bintest")),
              ("reports.do_genemetrics", rt.opt(RP, "do_genemetrics"))]
    for mod, attr, op in ((T, "do_target", "target"), (AT, "do_antitarget", "antitarget"), (FX, "do_fix", "fix"), (S, "do_segmentation", "segment"),
                          (SM, "do_segmetrics", "segmetrics"), (CL, "do_call", "call"), (RP, "do_genemetrics", "genemetrics"), (RP, "do_breaks", "breaks"),
                          (BT, "do_bintest", "bintest"), (MT, "do_metrics", "metrics")):
        attach(rt, mod, attr, op, also=[(CM, attr if attr != "do_segmentation" else "do_segmentation")])
    for attr, op in (("export_bed", "export-bed"), ("export_vcf", "export-vcf"), ("export_seg", "export-seg"), ("export_theta", "export-theta")):
        attach(rt, EX, attr, op)
    for attr in ("merge", "flatten", "subtract", "intersection", "subdivide", "resize_ranges"):
        attach(rt, GenomicArray, attr, f"ga.{attr}")
    attach(rt, GenomicArray, "by_arm", "ga.by_arm", generator=True)
    attach(rt, CopyNumArray, "by_gene", "cna.by_gene", generator=True)
    attach(rt, CopyNumArray, "center_all", "cna.center_all", mutates_self=True)
    rt.attach(CORE, "ensure_path", name="core.ensure_path", pre=pre_ensure, post=post_ensure)
    return traced
