"""Monitors on GenomicArray range queries (C07): by_ranges, in_range, in_ranges,
intersection (row level), iter_ranges_of, into_ranges.  The oracle is the
brute-force filter of vmon/models/intervals.select over plain tuples.
"""
import math

import numpy as np
import pandas as pd

from ..gen import ga_rows, _plain
from ..models import intervals as M


def _arg(args, kwargs, pos, name, default=None):
    if len(args) > pos:
        return args[pos]
    return kwargs.get(name, default)


def _rows_ok(run, mon, rows):
    if not M.is_sorted_table(rows):
        run.ood(mon, "rows-unsorted-or-zero-width")
        return False
    return True


def _queries_ok(run, mon, q):
    if M.chrom_groups(q) is None or any(r[2] <= r[1] for r in q):
        run.ood(mon, "queries-noncontiguous-or-zero-width")
        return False
    return True


def _qclass(rows, q=None, mode=None):
    c = ["nested" if M.has_nesting(rows) else "simple"]
    if not rows:
        c.append("norows")
    if q is not None:
        cr, cq = {r[0] for r in rows}, {r[0] for r in q}
        if len(cr) == 1 and cr == cq:
            c.append("fastpath")
        if cq - cr:
            c.append("q-only-chrom")
        if cr - cq:
            c.append("r-only-chrom")
    if mode:
        c.append(mode)
    return ":".join(c)


def _eq_rows(a, b):
    if len(a) != len(b):
        return False
    for x, y in zip(a, b):
        if len(x) != len(y):
            return False
        for u, v in zip(x, y):
            if isinstance(u, float) or isinstance(v, float):
                if u is None or v is None:
                    if u is not v:
                        return False
                elif not (u == v or (math.isnan(u) and math.isnan(v))):
                    return False
            elif u != v:
                return False
    return True


def _snap_two(run, args, kwargs):
    other = _arg(args, kwargs, 1, "other")
    return {"rows": ga_rows(args[0]), "q": ga_rows(other), "cols": list(args[0].data.columns),
            "index_unique": bool(args[0].data.index.is_unique)}


def _snap_self(run, args, kwargs):
    return {"rows": ga_rows(args[0]), "cols": list(args[0].data.columns)}


# ------------------------------------------------------------------ by_ranges

def post_by_ranges(run, snap, res, args, kwargs):
    mon = "GenomicArray.by_ranges"
    mode = _arg(args, kwargs, 2, "mode", "outer")
    keep = _arg(args, kwargs, 3, "keep_empty", True)
    rows, q = snap["rows"], snap["q"]
    if not (_rows_ok(run, mon, rows) and _queries_ok(run, mon, q)):
        return
    got = [((str(b.chromosome), int(b.start), int(b.end)), ga_rows(sub)) for b, sub in res]
    want = []
    for qr in q:
        sel = [r for _i, r in M.select(rows, qr[0], qr[1], qr[2], mode)]
        if sel or keep:
            want.append((qr[:3], sel))
    w = {"rows": rows, "queries": [x[:3] for x in q], "mode": mode, "keep_empty": keep}
    if [g[0] for g in got] != [x[0] for x in want]:
        return run.violate(mon, f"by_ranges-query-sequence-{mode}-keep{int(bool(keep))}",
                           f"yielded ranges {[g[0] for g in got][:6]} != expected {[x[0] for x in want][:6]}", w)
    for (qq, g), (_q2, x) in zip(got, want):
        if not _eq_rows(g, x):
            return run.violate(mon, f"by_ranges-rows-{mode}" + ("-nested" if M.has_nesting(rows) else ""),
                               f"range {qq}: got {g[:6]} want {x[:6]}", dict(w, query=qq, got=g, want=x))
    run.held(mon, "by_ranges:" + _qclass(rows, q, mode))


# ------------------------------------------------------- in_range / in_ranges

def post_in_range(run, snap, res, args, kwargs):
    mon = "GenomicArray.in_range"
    chrom = _arg(args, kwargs, 1, "chrom")
    start = _arg(args, kwargs, 2, "start")
    end = _arg(args, kwargs, 3, "end")
    mode = _arg(args, kwargs, 4, "mode", "outer")
    rows = snap["rows"]
    if not _rows_ok(run, mon, rows):
        return
    if chrom is None and len({r[0] for r in rows}) > 1:
        return run.ood(mon, "no-chrom-on-multichrom-table")
    if start is not None and end is not None and end <= start:
        return run.ood(mon, "zero-width-query")
    want = [r for _i, r in M.select(rows, chrom, None if start is None else int(start), None if end is None else int(end), mode)]
    got = ga_rows(res)
    if not _eq_rows(got, want):
        bound = "both" if (start is not None and end is not None) else "start-only" if start is not None else "end-only" if end is not None else "none"
        return run.violate(mon, f"in_range-{mode}-{bound}" + ("-nested" if M.has_nesting(rows) else ""),
                           f"in_range({chrom},{start},{end},{mode}) got {got[:6]} want {want[:6]}",
                           {"rows": rows, "chrom": chrom, "start": start, "end": end, "mode": mode, "got": got, "want": want})
    run.held(mon, "in_range:" + _qclass(rows, None, mode) + (":open" if start is None or end is None else ""))


def post_in_ranges(run, snap, res, args, kwargs):
    mon = "GenomicArray.in_ranges"
    chrom = _arg(args, kwargs, 1, "chrom")
    starts = _arg(args, kwargs, 2, "starts")
    ends = _arg(args, kwargs, 3, "ends")
    mode = _arg(args, kwargs, 4, "mode", "outer")
    rows = snap["rows"]
    if not _rows_ok(run, mon, rows):
        return
    if chrom is None and len({r[0] for r in rows}) > 1:
        return run.ood(mon, "no-chrom-on-multichrom-table")
    if (starts is not None and not len(starts)) or (ends is not None and not len(ends)):
        return run.ood(mon, "empty-bound-list")
    n = len(starts) if starts is not None else len(ends) if ends is not None else 1
    ss = [None] * n if starts is None else [int(x) for x in starts]
    ee = [None] * n if ends is None else [int(x) for x in ends]
    if any(s is not None and e is not None and e <= s for s, e in zip(ss, ee)):
        return run.ood(mon, "zero-width-query")
    want = []
    for s, e in zip(ss, ee):
        want += [r for _i, r in M.select(rows, chrom, s, e, mode)]
    got = ga_rows(res)
    if not _eq_rows(got, want):
        return run.violate(mon, f"in_ranges-{mode}" + ("-nested" if M.has_nesting(rows) else ""),
                           f"in_ranges({chrom},{ss},{ee},{mode}) got {got[:6]} want {want[:6]}",
                           {"rows": rows, "chrom": chrom, "starts": ss, "ends": ee, "mode": mode, "got": got, "want": want})
    run.held(mon, "in_ranges:" + _qclass(rows, None, mode))


# --------------------------------------------------------- intersection (rows)

def post_intersection_rows(run, snap, res, args, kwargs):
    mon = "GenomicArray.intersection[rows]"
    mode = _arg(args, kwargs, 2, "mode", "outer")
    rows, q = snap["rows"], snap["q"]
    if not (_rows_ok(run, mon, rows) and _queries_ok(run, mon, q)):
        return
    if not snap["index_unique"]:
        return run.ood(mon, "duplicate-index-labels")
    want = []
    for qr in q:
        want += [r for _i, r in M.select(rows, qr[0], qr[1], qr[2], mode)]
    got = ga_rows(res)
    if not _eq_rows(got, want):
        return run.violate(mon, f"intersection-rows-{mode}" + ("-nested" if M.has_nesting(rows) else ""),
                           f"intersection({mode}) got {got[:6]} want {want[:6]}",
                           {"rows": rows, "queries": [x[:3] for x in q], "mode": mode, "got": got, "want": want})
    run.held(mon, "intersection:" + _qclass(rows, q, mode))


def exc_intersection(run, snap, exc, args, kwargs):
    mon = "GenomicArray.intersection[rows]"
    if snap and M.is_sorted_table(snap["rows"]) and M.chrom_groups(snap["q"]) is not None and all(r[2] > r[1] for r in snap["q"]) \
            and _arg(args, kwargs, 2, "mode", "outer") in ("outer", "inner", "trim") and snap["index_unique"]:
        run.violate(mon, f"intersection-raises-{type(exc).__name__}", f"raised {exc!r}",
                    {"rows": snap["rows"], "queries": [x[:3] for x in snap["q"]]})


# -------------------------------------------------------------- iter_ranges_of

def post_iter_ranges_of(run, snap, res, args, kwargs):
    mon = "GenomicArray.iter_ranges_of"
    column = _arg(args, kwargs, 2, "column")
    mode = _arg(args, kwargs, 3, "mode", "outer")
    keep = _arg(args, kwargs, 4, "keep_empty", True)
    rows, q = snap["rows"], snap["q"]
    if mode not in ("outer", "inner"):
        return run.ood(mon, "mode-trim-on-column")
    if not (_rows_ok(run, mon, rows) and _queries_ok(run, mon, q)):
        return
    ci = ["chromosome", "start", "end"].index(column) if column in ("chromosome", "start", "end") else 3 + [c for c in snap["cols"] if c not in ("chromosome", "start", "end")].index(column)
    want = []
    for qr in q:
        sel = [(r[ci],) for _i, r in M.select(rows, qr[0], qr[1], qr[2], mode)]
        if sel or keep:
            want.append(sel)
    got = [[(_plain(v),) for v in ser.tolist()] for ser in res]
    if len(got) != len(want) or any(not _eq_rows(g, x) for g, x in zip(got, want)):
        return run.violate(mon, f"iter_ranges_of-{mode}-keep{int(bool(keep))}" + ("-nested" if M.has_nesting(rows) else ""),
                           f"column groups {got[:6]} != {want[:6]}",
                           {"rows": rows, "queries": [x[:3] for x in q], "column": column, "mode": mode, "keep_empty": keep, "got": got, "want": want})
    run.held(mon, "iter_ranges_of:" + _qclass(rows, q, mode))


# ----------------------------------------------------------------- into_ranges

def post_into_ranges(run, snap, res, args, kwargs):
    mon = "GenomicArray.into_ranges"
    column = _arg(args, kwargs, 2, "column")
    default = _arg(args, kwargs, 3, "default")
    func = _arg(args, kwargs, 4, "summary_func", None)
    rows, q = snap["rows"], snap["q"]
    if not (_rows_ok(run, mon, rows) and _queries_ok(run, mon, q)):
        return
    w = {"rows": rows, "queries": [x[:3] for x in q], "column": column, "default": default}
    if not q:
        # no ranges: nothing to return, whatever the container
        if len(res):
            return run.violate(mon, "into_ranges-shape", f"{len(res)} values for 0 ranges", w)
        return run.held(mon, "into_ranges:noqueries")
    if not isinstance(res, pd.Series) or len(res) != len(q):
        mech = "into_ranges-empty-source" if not rows else "into_ranges-shape"
        return run.violate(mon, mech, f"result is {type(res).__name__} of length {len(res)}, want one value per range ({len(q)})", w)
    got = [_plain(v) for v in res.tolist()]
    if column not in snap["cols"]:
        want_all_default = True
        vals = None
    else:
        want_all_default = False
        ci = 3 + [c for c in snap["cols"] if c not in ("chromosome", "start", "end")].index(column)
        first = rows[0][ci] if rows else None
        if func is not None and not callable(func):
            return run.ood(mon, "constant-summary")
        if func is None and rows and not isinstance(first, (str, float)):
            return run.ood(mon, "non-str-non-float-column")
    for k, qr in enumerate(q):
        if want_all_default:
            x = default
        else:
            vals = [r[ci] for _i, r in M.select(rows, qr[0], qr[1], qr[2], "outer")]
            if not vals:
                x = default
            elif len(vals) == 1:
                x = vals[0]
            elif func is not None:
                x = _plain(func(pd.Series([np.nan if v is None else v for v in vals])))
            elif isinstance(first, str):
                x = M.join_distinct(vals)
            else:
                ok = [v for v in vals if v is not None]
                x = float(np.median(ok)) if ok else None
        g = got[k]
        x = _plain(x)
        same = (g is None and x is None) or (isinstance(g, float) and isinstance(x, (int, float)) and abs(g - x) <= 1e-12 * max(1, abs(x))) or g == x
        if not same:
            kind = "default" if not vals else "single" if vals and len(vals) == 1 else "summary"
            return run.violate(mon, f"into_ranges-{kind}" + ("-nested" if M.has_nesting(rows) else ""),
                               f"range {qr[:3]}: got {g!r} want {x!r}", dict(w, got=got))
    run.held(mon, "into_ranges:" + _qclass(rows, q) + (":func" if func is not None else ""))


def exc_generic(mon):
    def on_exc(run, snap, exc, args, kwargs):
        if snap is None:
            return
        q = snap.get("q")
        if M.is_sorted_table(snap["rows"]) and (q is None or (M.chrom_groups(q) is not None and all(r[2] > r[1] for r in q))):
            run.extra[f"raised:{mon}:{type(exc).__name__}"] += 1
    return on_exc


def _count(name):
    def post(run, snap, res, args, kwargs):
        run.extra[f"path:{name}"] += 1
    return post


def attach_all(run, rt):
    from skgenome import GenomicArray as GA
    import skgenome.intersect as I
    rt.attach(GA, "by_ranges", name="GenomicArray.by_ranges", pre=_snap_two, post=post_by_ranges, generator=True)
    rt.attach(GA, "in_range", name="GenomicArray.in_range", pre=_snap_self, post=post_in_range)
    rt.attach(GA, "in_ranges", name="GenomicArray.in_ranges", pre=_snap_self, post=post_in_ranges)
    rt.attach(GA, "intersection", name="GenomicArray.intersection[rows]", pre=_snap_two, post=post_intersection_rows, on_exc=exc_intersection)
    rt.attach(GA, "iter_ranges_of", name="GenomicArray.iter_ranges_of", pre=_snap_two, post=post_iter_ranges_of, generator=True)
    rt.attach(GA, "into_ranges", name="GenomicArray.into_ranges", pre=_snap_two, post=post_into_ranges)
    traced = [
        ("intersect.by_shared_chroms", rt.opt(I, "by_shared_chroms")), ("intersect._irange_simple", rt.opt(I, "_irange_simple")),
        ("intersect._irange_nested", rt.opt(I, "_irange_nested")), ("intersect.idx_ranges", rt.opt(I, "idx_ranges")),
        ("intersect.iter_slices", rt.opt(I, "iter_slices")), ("intersect.iter_ranges", rt.opt(I, "iter_ranges")),
        ("intersect.into_ranges", rt.opt(I, "into_ranges")), ("intersect.by_ranges", rt.opt(I, "by_ranges")),
    ]
    # path recorders: which slicing routine served the calls
    rt.attach(I, "_irange_simple", name="path._irange_simple", post=_count("_irange_simple"))
    rt.attach(I, "_irange_nested", name="path._irange_nested", post=_count("_irange_nested"))
    return traced
