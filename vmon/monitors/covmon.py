"""Monitors on cnvlib.coverage (C09).

The oracle is a per-contig integer depth array built from the generated read
list (a JSON side-car next to the synthetic BAM: positions, CIGAR, flags,
MAPQ) -- no pysam/samtools in the oracle.  do_coverage is judged per bin; a
history monitor asserts that every call with the same (BED, BAM, algorithm,
MAPQ cut-off) returns the identical table whatever the worker count and chunk
size; the chunk-size override and worker delays are injected here.
"""
import json
import math
import os
import time

import numpy as np

from ..synth import bam as SB


def parse_bed(path):
    rows = []
    with open(path) as fh:
        for line in fh:
            if not line.strip() or line.startswith(("#", "track", "browser")):
                continue
            f = line.rstrip("\n").split("\t")
            rows.append((f[0], int(f[1]), int(f[2]), f[3] if len(f) > 3 and f[3] != "" else "-"))
    return rows


def _args(args, kwargs):
    names = ["bed_fname", "bam_fname", "by_count", "min_mapq", "processes", "fasta"]
    d = {"by_count": False, "min_mapq": 0, "processes": 1, "fasta": None}
    d.update(dict(zip(names, args)))
    d.update(kwargs)
    return d


def pre_cov(run, args, kwargs):
    a = _args(args, kwargs)
    snap = {"a": a, "truth": None, "bed": None}
    side = str(a["bam_fname"]) + ".truth.json"
    if os.path.exists(side):
        with open(side) as fh:
            snap["truth"] = json.load(fh)
    try:
        snap["bed"] = parse_bed(a["bed_fname"])
    except Exception:
        pass
    _drain(run)
    run.__dict__["_cov_callno"] = run.__dict__.get("_cov_callno", 0) + 1
    run._tls.cov_call = run.__dict__["_cov_callno"]
    snap["call"] = run._tls.cov_call
    return snap


def _expected_rows_sparse(truth, bed, min_mapq):
    """Same quantity for contigs too long for a per-base array: each bin's bases summed over the counted reads' aligned blocks."""
    contigs = [tuple(c) for c in truth["contigs"]]
    idx = {n: i for i, (n, _l) in enumerate(contigs)}
    blocks = {i: [] for i in range(len(contigs))}
    for r in truth["reads"]:
        if SB.counted(r, min_mapq or 0):
            blocks[r["tid"]] += list(SB.aligned_blocks(r))
    out = []
    for c, s, e, g in bed:
        if c not in idx:
            out.append(None)
            continue
        if e > s:
            bases = sum(max(0, min(e, be) - max(s, bs)) for bs, be in blocks[idx[c]])
            depth = bases / (e - s)
        else:
            depth = 0.0
        out.append((depth, math.log2(depth) if depth > 0 else -20.0))
    return out


def expected_rows(truth, bed, min_mapq):
    contigs = [tuple(c) for c in truth["contigs"]]
    if max((l for _n, l in contigs), default=0) > 2_000_000:
        return _expected_rows_sparse(truth, bed, min_mapq)
    arrs = SB.depth_arrays(contigs, truth["reads"], min_mapq or 0)
    cs = [np.concatenate([[0], np.cumsum(a)]) for a in arrs]
    idx = {n: i for i, (n, _l) in enumerate(contigs)}
    out = []
    for c, s, e, g in bed:
        if c not in idx:
            out.append(None)
            continue
        L = contigs[idx[c]][1]
        if e > s:
            a, b = min(max(s, 0), L), min(max(e, 0), L)
            bases = int(cs[idx[c]][b] - cs[idx[c]][a]) if b > a else 0
            depth = bases / (e - s)
        else:
            depth = 0.0
        out.append((depth, math.log2(depth) if depth > 0 else -20.0))
    return out


def post_cov(run, snap, res, args, kwargs):
    mon = "coverage.do_coverage"
    a, truth, bed = snap["a"], snap["truth"], snap["bed"]
    algo = "count" if a["by_count"] else "pileup"
    evs = _drain(run, snap["call"])
    run._tls.cov_call = None
    if truth is None or bed is None:
        return run.ood(mon, "no-ground-truth-for-this-bam")
    if a["fasta"]:
        return run.ood(mon, "cram-or-fasta")
    df = res.data
    kinds = sorted({type(c).__name__ for c in df["chromosome"].tolist()})
    if kinds not in ([], ["str"]):
        return run.violate(mon, f"{algo}-chromosome-names-not-text", f"the chromosome column holds values of type {kinds} (contig names are text, also when they look like numbers; "
                           f"processes={a['processes']}, chunk size {CHUNK['size']})", {"algorithm": algo, "processes": a["processes"], "chunk_size": CHUNK["size"], "bed": bed[:40],
                                                                                      "chromosome_values": [repr(c) for c in df["chromosome"].tolist()[:60]]})
    got = list(zip((str(c) for c in df["chromosome"].tolist()), (int(x) for x in df["start"]), (int(x) for x in df["end"]), (str(g) for g in df["gene"].tolist())))
    gd = df["depth"].values.astype(float) if "depth" in df.columns else None
    gl = df["log2"].values.astype(float)
    wit = {"algorithm": algo, "min_mapq": a["min_mapq"], "processes": a["processes"], "chunk_size": CHUNK["size"], "bed": bed[:80], "n_bed": len(bed),
           "contigs": truth["contigs"], "n_reads": len(truth["reads"]), "reads_head": truth["reads"][:30],
           "output_head": [(k, float(d) if gd is not None else None, float(l)) for k, d, l in zip(got[:80], gd[:80] if gd is not None else [None] * 80, gl[:80])]}
    if gd is None:
        return run.violate(mon, "no-depth-column", "the table has no depth column", wit)
    # rows: every BED line exactly once, coordinates and name kept
    if sorted(got) != sorted(bed):
        lost = [b for b in bed if b not in set(got)][:3]
        extra = [g for g in got if g not in set(bed)][:3]
        return run.violate(mon, f"{algo}-rows-differ-from-bed-lines", f"{len(got)} rows for {len(bed)} BED lines; missing {lost}, unexpected {extra}", wit)
    exp = dict()
    for b, e in zip(bed, expected_rows(truth, bed, a["min_mapq"])):
        exp[b] = e
    n_cov = 0
    for k, d, l in zip(got, gd, gl):
        e = exp[k]
        if e is None:
            continue
        if not abs(d - e[0]) <= 1e-9 * max(1.0, abs(e[0])):
            return run.violate(mon, f"{algo}-depth-wrong", f"bin {k}: depth {d}, the counted reads give {e[0]} (min_mapq={a['min_mapq']})", dict(wit, bin=k, expected=e))
        if not abs(l - e[1]) <= 1e-9 * max(1.0, abs(e[1])):
            return run.violate(mon, f"{algo}-log2-wrong", f"bin {k}: log2 {l} for depth {d}, expected {e[1]}", dict(wit, bin=k, expected=e))
        n_cov += e[0] > 0
        if 0 < e[0] < 2.0 ** -20:
            run.extra[f"bins-covered-below-2^-20:{algo}"] += 1
    run.extra[f"bins-judged:{algo}"] += len(got)
    run.extra[f"bins-with-coverage:{algo}"] += int(n_cov)
    run.held(mon, f"cov:{algo}:q{a['min_mapq']}:p{min(int(a['processes'] or 0), 16)}" + (":indels" if truth.get("indels") else ""))
    # history: same arguments -> same table, whatever the workers / chunking
    hist = run.__dict__.setdefault("_cov_hist", {})
    key = (os.path.abspath(a["bed_fname"]), os.path.abspath(a["bam_fname"]), bool(a["by_count"]), int(a["min_mapq"] or 0))
    table = (got, gd.tolist(), gl.tolist())
    hm = "coverage.do_coverage[same-table-any-schedule]"
    if key in hist:
        first, cfg = hist[key]
        if first != table:
            where = "row order" if sorted(zip(*first)) == sorted(zip(*table)) else "values"
            return run.violate(hm, f"{algo}-table-depends-on-workers-or-chunks", f"{where} differ between processes/chunk {cfg} and {(a['processes'], CHUNK['size'])}", wit)
        run.held(hm, f"same:{algo}")
        run.sets[f"configs_compared:{algo}"].add(f"p{a['processes']}/chunk{CHUNK['size']}")
    else:
        hist[key] = (table, (a["processes"], CHUNK["size"]))
    # schedule evidence from the workers' logs
    if len(evs) > 1:
        run.extra["calls-with-several-chunks"] += 1
        by_sub = sorted(range(len(evs)), key=lambda i: evs[i]["sub"])
        by_done = sorted(range(len(evs)), key=lambda i: evs[i]["t_ret"])
        if by_sub != by_done:
            run.extra["calls-completing-out-of-submission-order"] += 1
            run.sets["completion_orders"].add(",".join(str(by_sub.index(i)) for i in by_done)[:60])
        run.sets["worker_pids_per_call"].add(len({e["pid"] for e in evs}))
        run.sets["chunks_per_call"].add(len(evs))


def exc_cov(run, snap, exc, args, kwargs):
    mon = "coverage.do_coverage"
    run._tls.cov_call = None
    if snap is None or snap["truth"] is None or snap["bed"] is None:
        return
    a = snap["a"]
    names = {c[0] for c in snap["truth"]["contigs"]}
    if not snap["bed"] or any(b[0] not in names for b in snap["bed"]):
        return run.ood(mon, "bed-names-not-in-bam-or-empty")
    run.violate(mon, f"{'count' if a['by_count'] else 'pileup'}-raises-{type(exc).__name__}", f"raised {exc!r}",
                {"algorithm": "count" if a["by_count"] else "pileup", "processes": a["processes"], "min_mapq": a["min_mapq"], "bed": snap["bed"][:60],
                 "contigs": snap["truth"]["contigs"], "n_reads": len(snap["truth"]["reads"])})


# ------------------------------------------------- injected configuration/faults

CHUNK = {"size": 5000}
_SUB = {"n": 0}


def make_to_chunks(orig):
    def to_chunks(bed_fname, chunk_size=5000):
        return orig(bed_fname, chunk_size=CHUNK["size"])
    to_chunks.__vmon_orig__ = orig
    return to_chunks


def make_worker(orig, main_pid, kind):
    """Pool entry point (_bedcov / _rdc): delay depending on the task, so chunks
    finish out of submission order, and log completion for the schedule evidence."""
    from .. import runtime as rt

    def worker(args):
        run = rt.RUN
        inpool = os.getpid() != main_pid
        tag = None
        if inpool:
            try:
                if kind == "bedcov":
                    tag = os.path.basename(args[0])            # tmp.<chunk no>.xxxx.bed
                    sub = int(tag.split(".")[1])
                else:
                    sub = int(args[1].data["start"].iat[0]) if len(args[1]) else 0
                    tag = str(args[1].data["chromosome"].iat[0]) if len(args[1]) else ""
                time.sleep(((sub * 7 + 3) % 5) * 0.006)
            except Exception:
                sub = -1
        out = orig(args)
        if inpool and run is not None and getattr(run._tls, "cov_call", None) is not None:
            run.log_event({"ev": "chunk", "call": run._tls.cov_call, "kind": kind, "tag": tag, "sub": sub if kind == "bedcov" else tag, "t_ret": time.time()})
        return out
    worker.__vmon_orig__ = orig
    worker.__module__, worker.__qualname__, worker.__name__ = orig.__module__, orig.__qualname__, orig.__name__
    return worker


def _drain(run, call=None):
    offs = run.__dict__.setdefault("_cov_offsets", {})
    out = []
    if not run.workdir:
        return out
    me = os.getpid()
    prefix = f"events.{run.shard}."
    for fn in os.listdir(run.workdir):
        if not (fn.startswith(prefix) and fn.endswith(".jsonl")):
            continue
        path = os.path.join(run.workdir, fn)
        try:
            with open(path) as fh:
                fh.seek(offs.get(path, 0))
                data = fh.read()
                offs[path] = fh.tell()
        except OSError:
            continue
        for line in data.splitlines():
            if line.startswith('{"ev": "chunk"'):
                e = json.loads(line)
                if call is None or e.get("call") == call:
                    out.append(e)
            elif line.startswith('{"ev": "monitor_error"'):
                run.adopt_worker_error(json.loads(line))
        if int(fn[len(prefix):-6]) != me:
            try:
                os.unlink(path)
            except OSError:
                pass
            offs.pop(path, None)
    return out


def attach_all(run, rt):
    import cnvlib.coverage as C
    import cnvlib.commands as CM
    import cnvlib.parallel as P
    import cnvlib.samutil as SU
    traced = [("coverage.do_coverage", rt.opt(C, "do_coverage")), ("coverage.interval_coverages", rt.opt(C, "interval_coverages")),
              ("coverage.interval_coverages_count", rt.opt(C, "interval_coverages_count")), ("coverage.region_depth_count", rt.opt(C, "region_depth_count")),
              ("coverage.interval_coverages_pileup", rt.opt(C, "interval_coverages_pileup")), ("coverage.bedcov", rt.opt(C, "bedcov")),
              ("coverage.detect_bedcov_columns", rt.opt(C, "detect_bedcov_columns")), ("parallel.to_chunks", rt.opt(P, "to_chunks"))]
    if hasattr(C, "to_chunks"):
        C.to_chunks = make_to_chunks(C.to_chunks)
        rt._ATTACHED.append((C, "to_chunks", C.to_chunks.__vmon_orig__))
    else:
        run.extra["injection-unavailable:coverage.to_chunks"] += 1
    pid = os.getpid()
    for attr, kind in (("_bedcov", "bedcov"), ("_rdc", "rdc")):
        if not hasattr(C, attr):
            run.extra[f"injection-unavailable:coverage.{attr}"] += 1
            continue
        w = make_worker(getattr(C, attr), pid, kind)
        rt._ATTACHED.append((C, attr, getattr(C, attr)))
        setattr(C, attr, w)
    rt.attach(C, "do_coverage", name="coverage.do_coverage", pre=pre_cov, post=post_cov, on_exc=exc_cov, also=[(CM, "do_coverage")])
    return traced
