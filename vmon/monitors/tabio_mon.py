"""Monitors on skgenome.tabio.read / write (C08).

* every read: result sorted in natural chromosome order, then start, end
  (universal clause, judged in any workload);
* read of a file the generator registered: coordinates / names equal the
  generator's 0-based half-open truth;
* history monitor: each write(table, path, fmt) is remembered; a later read of
  that path with the matching format must return identical coordinates, names
  and integer columns and floats equal to 6 significant digits; and writing
  the table that was read back, unchanged, in the same format must produce
  identical bytes.
"""
import math
import os

import numpy as np

from ..gen import cna_records
from ..models import formats as F
from .. import runtime as rt

WRITTEN = {}    # path -> {"fmt", "cols", "recs", "bytes"}
READBACK = {}   # path -> fingerprint of the table read from it
TRUTH = {}      # path -> {"rows": [(chrom,start,end,gene)], "gene": bool, "fmt": str}

READ_OF_WRITE = {"tab": ("tab",), "bed": ("bed",), "bed3": ("bed3", "bed"), "bed4": ("bed4", "bed"), "interval": ("interval",), "text": ("text",)}


def register_truth(path, rows, fmt, gene=True, end=True):
    TRUTH[os.path.abspath(path)] = {"rows": list(rows), "fmt": fmt, "gene": gene, "end": end}


def _arg(args, kwargs, pos, name, default=None):
    if len(args) > pos:
        return args[pos]
    return kwargs.get(name, default)


def _path(x):
    return os.path.abspath(x) if isinstance(x, str) else None


def _isnan(x):
    return x is None or (isinstance(x, float) and math.isnan(x))


def pre_read(run, args, kwargs):
    return {"path": _path(args[0]), "fmt": _arg(args, kwargs, 1, "fmt", "tab"), "kw": {k: v for k, v in kwargs.items() if k not in ("fmt", "into", "meta")}}


def post_read(run, snap, res, args, kwargs):
    mon = "tabio.read"
    fmt, path = snap["fmt"], snap["path"]
    cols = list(res.data.columns)
    rows = cna_records(res, ["chromosome", "start", "end"] + (["gene"] if "gene" in cols else []))
    wit = {"path": path, "fmt": fmt, "rows": rows[:40]}
    # (1) sorted -- universal
    if F.mixed_style(rows):
        run.ood(mon + "[sorted]", "mixed-naming-styles")
    else:
        msg = F.check_sorted(rows)
        if msg:
            return run.violate(mon + "[sorted]", f"read-unsorted-{fmt}", msg, wit)
        run.held(mon + "[sorted]", f"sorted:{fmt}")
    # (2) against the generator's truth
    t = TRUTH.get(path) if path else None
    if t is not None and "sample_id" not in snap["kw"]:
        want = sorted((r[0], r[1], r[2] if t["end"] else None) + ((r[3],) if t["gene"] and "gene" in cols else ()) for r in t["rows"])
        got = sorted((r[0], r[1], r[2] if t["end"] else None) + ((r[3],) if t["gene"] and "gene" in cols else ()) for r in rows)
        if got != want:
            diff = [g for g in got if g not in want][:3]
            miss = [w for w in want if w not in got][:3]
            off = "off-by-one" if diff and miss and diff[0][0] == miss[0][0] and abs(diff[0][1] - miss[0][1]) == 1 else "rows"
            return run.violate(mon + "[truth]", f"read-{t['fmt']}-as-{fmt}-{off}", f"read {diff} where the file states {miss} (0-based half-open)", dict(wit, truth=t["rows"][:40]))
        run.held(mon + "[truth]", f"truth:{t['fmt']}-as-{fmt}")
    # (3) history: read after write
    w = WRITTEN.get(path) if path else None
    if w is not None and fmt in READ_OF_WRITE.get(w["fmt"], ()) and "sample_id" not in snap["kw"]:
        msg = _compare_roundtrip(w, res, cols)
        if msg:
            return run.violate(mon + "[roundtrip]", f"roundtrip-{w['fmt']}-{msg[0]}", msg[1], dict(wit, written=w["recs"][:40], written_cols=w["cols"]))
        run.held(mon + "[roundtrip]", f"roundtrip:{w['fmt']}")
        # the byte-identical re-write clause presupposes that the table was written in the order reading yields
        ci = [w["cols"].index(c) for c in ("chromosome", "start", "end")]
        same_order = [tuple(r[i] for i in ci) for r in w["recs"]] == [r[:3] for r in rows]
        READBACK[path] = (fmt, rt.fingerprint(res.data, 16), same_order)


def _compare_roundtrip(w, res, cols):
    wcols, wrecs = w["cols"], w["recs"]
    # what the format carries
    if w["fmt"] == "tab":
        carry = wcols
    elif w["fmt"] == "bed":
        carry = wcols if len(wcols) > 3 else ["chromosome", "start", "end"]
        carry = [c for c in carry if c in ("chromosome", "start", "end", "gene")]   # the reader keeps name (and strand)
    elif w["fmt"] == "bed3":
        carry = ["chromosome", "start", "end"]
    elif w["fmt"] in ("bed4", "interval"):
        carry = ["chromosome", "start", "end"] + (["gene"] if "gene" in wcols else [])
    else:
        carry = ["chromosome", "start", "end"]
    if any(c not in cols for c in carry):
        return ("columns", f"columns {[c for c in carry if c not in cols]} lost")
    got = cna_records(res, carry)
    idx = [wcols.index(c) for c in carry]
    want = [tuple(r[i] for i in idx) for r in wrecs]
    key = lambda r: (r[0], r[1], r[2])
    # multiset comparison keyed by coordinates (reading sorts the rows)
    gs, ws = sorted(got, key=lambda r: tuple(map(repr, r[:3]))), sorted(want, key=lambda r: tuple(map(repr, r[:3])))
    if [key(r) for r in gs] != [key(r) for r in ws]:
        a = [key(r) for r in gs if key(r) not in {key(x) for x in ws}][:3]
        b = [key(r) for r in ws if key(r) not in {key(x) for x in gs}][:3]
        return ("coordinates", f"wrote {b}, read back {a}")
    # other columns: group rows by coordinates (duplicates compare as multisets)
    from collections import defaultdict
    gd, wd = defaultdict(list), defaultdict(list)
    for r in gs:
        gd[key(r)].append(r[3:])
    for r in ws:
        wd[key(r)].append(r[3:])
    for k in wd:
        a, b = sorted(gd[k], key=repr), sorted(wd[k], key=repr)
        if len(a) == 1:
            pairs = [(a[0], b[0])]
        else:
            pairs = list(zip(a, b))
        for x, y in pairs:
            for ci, (u, v) in enumerate(zip(x, y)):
                col = carry[3 + ci]
                if isinstance(v, float) or isinstance(u, float):
                    if _isnan(u) and _isnan(v):
                        continue
                    if _isnan(u) or _isnan(v) or not F.sig6(float(u), float(v)):
                        return ("float", f"{k} column {col}: wrote {v!r}, read back {u!r} (not equal to 6 significant digits)")
                elif u != v:
                    return ("value", f"{k} column {col}: wrote {v!r}, read back {u!r}")
    return None


def pre_write(run, args, kwargs):
    garr = args[0]
    cols = list(garr.data.columns)
    return {"path": _path(_arg(args, kwargs, 1, "outfile")), "fmt": _arg(args, kwargs, 2, "fmt", "tab"), "cols": cols,
            "recs": cna_records(garr, cols), "src": _path(garr.meta.get("filename")) if isinstance(garr.meta.get("filename"), str) else None,
            "fp": rt.fingerprint(garr.data, 16)}


def post_write(run, snap, res, args, kwargs):
    mon = "tabio.write"
    path, fmt = snap["path"], snap["fmt"]
    if not path or not os.path.isfile(path):
        return run.ood(mon, "not-a-path")
    with open(path, "rb") as fh:
        data = fh.read()
    # re-write of a table that was read back unchanged must give identical bytes
    src = snap["src"]
    if src and src in WRITTEN and src in READBACK and WRITTEN[src]["fmt"] == fmt and READBACK[src][1] == snap["fp"] and src != path \
            and READBACK[src][2] and READBACK[src][0] == fmt and fmt != "bed":
        if data != WRITTEN[src]["bytes"]:
            a, b = WRITTEN[src]["bytes"].splitlines(), data.splitlines()
            k = next((i for i, (x, y) in enumerate(zip(a, b)) if x != y), min(len(a), len(b)))
            # a whole-number float column holding a negative zero is written '-0', read back as the integer 0 and written '0'
            negzero = len(a) == len(b) and all(len(x.split(b"\t")) == len(y.split(b"\t")) and all(u == v or (u, v) == (b"-0", b"0") for u, v in zip(x.split(b"\t"), y.split(b"\t")))
                                               for x, y in zip(a, b))
            run.violate(mon + "[rewrite]", "rewrite-differs-negative-zero" if negzero else f"rewrite-differs-{fmt}", f"line {k}: first write {a[k][:120] if k < len(a) else None!r}, second write {b[k][:120] if k < len(b) else None!r}",
                        {"fmt": fmt, "first": [x.decode(errors='replace') for x in a[:12]], "second": [x.decode(errors='replace') for x in b[:12]]})
        else:
            run.held(mon + "[rewrite]", f"rewrite:{fmt}")
    WRITTEN[path] = {"fmt": fmt, "cols": snap["cols"], "recs": snap["recs"], "bytes": data}
    READBACK.pop(path, None)
    run.counters[f"{mon}|recorded"] += 1


def post_sniff(run, snap, res, args, kwargs):
    run.extra[f"sniffed:{res}"] += 1


def attach_all(run, rt_):
    import skgenome.tabio as T
    from skgenome.tabio import bedio, picard, textcoord, gff, seg, tab, vcfsimple
    import skgenome.rangelabel as RL
    import skgenome.chromsort as CS
    from skgenome import GenomicArray as GA
    traced = [("tabio.read", rt.opt(T, "read")), ("tabio.write", rt.opt(T, "write")), ("tabio.read_auto", rt.opt(T, "read_auto")), ("tabio.sniff_region_format", rt.opt(T, "sniff_region_format")),
              ("bedio.read_bed", rt.opt(bedio, "read_bed")), ("picard.read_interval", rt.opt(picard, "read_interval")), ("picard.write_interval", rt.opt(picard, "write_interval")),
              ("picard.read_picard_hs", rt.opt(picard, "read_picard_hs")), ("textcoord.read_text", rt.opt(textcoord, "read_text")), ("textcoord.write_text", rt.opt(textcoord, "write_text")),
              ("gff.read_gff", rt.opt(gff, "read_gff")), ("seg.parse_seg", rt.opt(seg, "parse_seg")), ("seg.format_seg", rt.opt(seg, "format_seg")), ("tab.read_tab", rt.opt(tab, "read_tab")),
              ("vcfsimple.read_vcf_sites", rt.opt(vcfsimple, "read_vcf_sites")), ("rangelabel.from_label", rt.opt(RL, "from_label")), ("rangelabel.to_label", rt.opt(RL, "to_label")),
              ("chromsort.sorter_chrom", rt.opt(CS, "sorter_chrom")), ("gary.sort", rt.opt(GA, "sort"))]
    rt_.attach(T, "read", name="tabio.read", pre=pre_read, post=post_read)
    rt_.attach(T, "write", name="tabio.write", pre=pre_write, post=post_write)
    rt_.attach(T, "sniff_region_format", name="tabio.sniff_region_format", post=post_sniff)
    return traced
