"""Runtime-monitoring core: runs, monitors (wrappers attached to the real
functions), three-valued verdicts, event log, fingerprints, shard merge,
evidence and replay files, known findings.

Nothing here imports cnvlib/skgenome at module import time; property modules
do, after `vcheck` has arranged sys.path (VERIF_REPO for scratch copies).
"""
import collections
import contextlib
import functools
import hashlib
import json
import math
import os
import sys
import threading
import time
import traceback

import numpy as np
import pandas as pd

VERIF = os.path.dirname(os.path.dirname(os.path.abspath(__file__)))
GUARD = "CNVKIT_VERIF"

HELD, VIOL, OOD = "held", "violated", "ood"


# ---------------------------------------------------------------- fingerprints

def _norm(obj):
    """Canonical, JSON-able form of (nested) arguments and results."""
    if obj is None or isinstance(obj, (bool, str)):
        return obj
    if isinstance(obj, (int, np.integer)):
        return int(obj)
    if isinstance(obj, (float, np.floating)):
        f = float(obj)
        if math.isnan(f):
            return "NaN"
        if math.isinf(f):
            return "Inf" if f > 0 else "-Inf"
        return repr(f)
    if isinstance(obj, np.ndarray):
        return ["nd", str(obj.dtype), list(obj.shape), [_norm(x) for x in obj.ravel().tolist()]]
    if isinstance(obj, pd.Series):
        return ["ser", str(obj.dtype), [_norm(x) for x in obj.index.tolist()], [_norm(x) for x in obj.tolist()]]
    if isinstance(obj, pd.DataFrame):
        return [
            "df",
            [str(c) for c in obj.columns],
            [str(t) for t in obj.dtypes],
            [_norm(x) for x in obj.index.tolist()],
            [[_norm(x) for x in obj[c].tolist()] for c in obj.columns],
        ]
    if hasattr(obj, "data") and hasattr(obj, "meta") and isinstance(getattr(obj, "data"), pd.DataFrame):
        meta = {k: v for k, v in obj.meta.items() if k not in ("chr_x", "chr_y")}
        return ["ga", type(obj).__name__, _norm(obj.data), _norm(meta)]
    if isinstance(obj, dict):
        return ["dict", sorted(([_norm(k), _norm(v)] for k, v in obj.items()), key=repr)]
    if isinstance(obj, (list, tuple)):
        return [type(obj).__name__, [_norm(x) for x in obj]]
    if isinstance(obj, (set, frozenset)):
        return ["set", sorted((_norm(x) for x in obj), key=repr)]
    return ["obj", type(obj).__name__, repr(obj)]


def fingerprint(obj, n=16):
    return hashlib.sha1(json.dumps(_norm(obj), sort_keys=False, default=repr).encode()).hexdigest()[:n]


def jsonable(obj, maxrows=60):
    """Human-readable JSON rendering of a witness (tables as records)."""
    if hasattr(obj, "data") and isinstance(getattr(obj, "data", None), pd.DataFrame):
        return {"type": type(obj).__name__, "meta": jsonable(getattr(obj, "meta", {})), "rows": jsonable(obj.data, maxrows)}
    if isinstance(obj, pd.DataFrame):
        recs = json.loads(obj.head(maxrows).to_json(orient="split", double_precision=15))
        recs["n_rows"] = len(obj)
        return recs
    if isinstance(obj, pd.Series):
        return jsonable(obj.tolist()[:maxrows])
    if isinstance(obj, np.ndarray):
        return jsonable(obj.tolist()[: maxrows * 4])
    if isinstance(obj, dict):
        return {str(k): jsonable(v, maxrows) for k, v in obj.items()}
    if isinstance(obj, (list, tuple, set, frozenset)):
        return [jsonable(v, maxrows) for v in list(obj)[: maxrows * 4]]
    if isinstance(obj, (np.integer,)):
        return int(obj)
    if isinstance(obj, (float, np.floating)):
        f = float(obj)
        return f if math.isfinite(f) else repr(f)
    if obj is None or isinstance(obj, (bool, int, str)):
        return obj
    return repr(obj)


def close(a, b, rel=1e-9, abs_=1e-9):
    """Numeric agreement with NaN == NaN."""
    if a is None or b is None:
        return a is b
    a, b = float(a), float(b)
    if math.isnan(a) or math.isnan(b):
        return math.isnan(a) and math.isnan(b)
    if math.isinf(a) or math.isinf(b):
        return a == b
    return abs(a - b) <= max(abs_, rel * max(abs(a), abs(b)))


# ------------------------------------------------------------------------ run

class MonitorError(Exception):
    """A bug inside a monitor/oracle (never a verdict about the code)."""


class Run:
    """State of one check execution (one shard)."""

    def __init__(self, prop, tier="quick", seed=0, shard=0, nshards=1, workdir=None,
                 deadline_s=None):
        self.prop = prop
        self.tier = tier
        self.seed = int(seed)
        self.shard = shard
        self.nshards = nshards
        self.workdir = workdir
        self.t0 = time.time()
        self.deadline = self.t0 + deadline_s if deadline_s else None
        self.counters = collections.Counter()      # "monitor|verdict" -> n
        self.classes = collections.Counter()       # input class -> n
        self.extra = collections.Counter()         # free-form observation counters
        self.sets = collections.defaultdict(set)   # named sets of observed things
        self.samples = []
        self.viol = {}          # mech -> first witness dict
        self.viol_count = collections.Counter()
        self.errors = []        # monitor errors (tracebacks)
        self.distinct = set()
        self.evaluations = 0
        self.case = None        # dict describing the case being driven
        self.truncated = False
        self._tls = threading.local()
        self._log = None
        self._seq = 0
        self.pid = os.getpid()   # forked pool workers see a different os.getpid()
        if workdir:
            os.makedirs(workdir, exist_ok=True)

    # -- event log (one JSON line per monitor event, per pid)
    def log_event(self, rec):
        if not self.workdir:
            return
        pid = os.getpid()
        if self._log is None or self._log[0] != pid:
            path = os.path.join(self.workdir, f"events.{self.shard}.{pid}.jsonl")
            self._log = (pid, os.open(path, os.O_WRONLY | os.O_CREAT | os.O_APPEND, 0o644))
        self._seq += 1
        rec = dict(rec, pid=pid, seq=self._seq, t=round(time.time() - self.t0, 6))
        os.write(self._log[1], (json.dumps(rec, default=repr) + "\n").encode())

    def read_events(self):
        """All events logged under this run's workdir by this shard (any pid)."""
        out = []
        if not self.workdir:
            return out
        if self._log is not None:
            os.fsync(self._log[1])
        for fn in sorted(os.listdir(self.workdir)):
            if fn.startswith(f"events.{self.shard}.") and fn.endswith(".jsonl"):
                with open(os.path.join(self.workdir, fn)) as fh:
                    for line in fh:
                        line = line.strip()
                        if line:
                            out.append(json.loads(line))
        return out

    # -- verdicts
    def held(self, monitor, cls=None, n=1):
        self.counters[f"{monitor}|{HELD}"] += n
        if cls is not None:
            self.classes[cls] += n

    def ood(self, monitor, why):
        self.counters[f"{monitor}|{OOD}"] += 1
        self.extra[f"ood:{monitor}:{why}"] += 1

    def violate(self, monitor, mech, detail, witness=None):
        """Record a refuting observation. `mech` names the mechanism (stable
        across random values); the first witness per mechanism is kept."""
        self.counters[f"{monitor}|{VIOL}"] += 1
        self.viol_count[mech] += 1
        if mech not in self.viol:
            self.viol[mech] = {
                "property": self.prop,
                "monitor": monitor,
                "mech": mech,
                "detail": detail,
                "case": jsonable(self.case) if self.case is not None else None,
                "witness": jsonable(witness) if witness is not None else None,
                "tier": self.tier,
                "seed": self.seed,
            }
        self.log_event({"ev": "violation", "monitor": monitor, "mech": mech, "detail": str(detail)[:300]})

    def monitor_error(self, monitor, exc):
        tb = "".join(traceback.format_exception(type(exc), exc, exc.__traceback__))
        self.counters[f"{monitor}|error"] += 1
        if len(self.errors) < 5:
            self.errors.append({"monitor": monitor, "traceback": tb[-3000:], "case": jsonable(self.case)})
        if os.getpid() != self.pid:
            # inside a forked pool worker: this object dies with the worker, so
            # hand the error to the parent through the event log
            self.log_event({"ev": "monitor_error", "monitor": monitor, "traceback": tb[-3000:]})

    def adopt_worker_error(self, rec):
        self.counters[f"{rec.get('monitor')}|error"] += 1
        if len(self.errors) < 5:
            self.errors.append({"monitor": rec.get("monitor"), "traceback": rec.get("traceback", ""), "case": jsonable(self.case)})

    # -- cases
    def begin_case(self, workload, index, cls=None, **info):
        self.case = dict(workload=workload, index=index, **info)
        self.evaluations += 1
        if cls is not None:
            self.classes[cls] += 1

    def end_case(self, fp=None, nontrivial=True, sample=None):
        if fp is not None and nontrivial:
            self.distinct.add(fp if isinstance(fp, str) else fingerprint(fp, 12))
        if sample is not None and len(self.samples) < 4:
            self.samples.append(jsonable(sample, 12))
        self.case = None

    def mine(self, index):
        # multiplicative hash: structured index spaces (variant = i % k) spread evenly
        return (((index * 0x9E3779B1) & 0xFFFFFFFF) >> 12) % self.nshards == self.shard

    def out_of_time(self):
        if self.deadline and time.time() > self.deadline:
            self.truncated = True
            return True
        return False

    def rng(self, *key):
        """Per-case generator: a function of (seed, key) only, so any case can
        be regenerated alone for replay, whatever the sharding."""
        h = hashlib.sha256(repr((self.seed, self.prop) + tuple(key)).encode()).digest()
        return np.random.default_rng(int.from_bytes(h[:8], "little"))

    # -- monitors' own re-entrancy guard: calls the oracle makes into the
    #    library must not be judged (or logged) again
    @property
    def in_monitor(self):
        return getattr(self._tls, "depth", 0) > 0

    @contextlib.contextmanager
    def monitor_scope(self):
        self._tls.depth = getattr(self._tls, "depth", 0) + 1
        try:
            yield
        finally:
            self._tls.depth -= 1

    def result(self):
        return {
            "prop": self.prop, "tier": self.tier, "seed": self.seed, "shard": self.shard,
            "counters": dict(self.counters), "classes": dict(self.classes), "extra": dict(self.extra),
            "sets": {k: sorted(map(str, v)) for k, v in self.sets.items()},
            "samples": self.samples, "viol": self.viol, "viol_count": dict(self.viol_count),
            "errors": self.errors, "distinct": sorted(self.distinct), "evaluations": self.evaluations,
            "truncated": self.truncated, "wall_s": time.time() - self.t0,
        }


RUN = None  # the active Run of this process (inherited by forked pool workers)


def current():
    return RUN


def set_run(run):
    global RUN
    RUN = run
    return run


# ------------------------------------------------------------------- attaching

_ATTACHED = []  # (owner, attr, original)


def original(func):
    """The undecorated function behind a monitor wrapper."""
    while hasattr(func, "__vmon_orig__"):
        func = func.__vmon_orig__
    return func


def attach(owner, attr, name=None, pre=None, post=None, on_exc=None, generator=False,
           also=()):
    """Replace `owner.attr` by a wrapper that snapshots (pre), calls the real
    function, and judges (post / on_exc).  `also` lists (module, attr) pairs
    where the same function was imported by name and must be patched too.

    pre(run, args, kwargs) -> snapshot
    post(run, snapshot, result, args, kwargs) -> None (records verdicts on run)
    on_exc(run, snapshot, exc, args, kwargs) -> None
    """
    if os.environ.get(GUARD) != "1":
        raise RuntimeError(f"monitors attach only under {GUARD}=1")
    try:
        raw = owner.__dict__[attr] if isinstance(owner, type) else getattr(owner, attr)
    except (KeyError, AttributeError):
        # An internal helper this monitor hooks is gone (renamed, inlined): that is a refactoring, not a violation.
        # The monitor is skipped and counted; quotas that need it then make the run inconclusive, never red.
        if RUN is not None:
            RUN.extra[f"monitor-unavailable:{name or attr}"] += 1
        return None
    is_static = isinstance(raw, staticmethod)
    is_class = isinstance(raw, classmethod)
    orig = raw.__func__ if (is_static or is_class) else raw
    mon = name or f"{getattr(owner, '__name__', owner)}.{attr}"

    def _judge(fn, *a):
        run = RUN
        try:
            with run.monitor_scope():
                return fn(run, *a)
        except Exception as exc:  # a bug in the monitor, not a verdict
            run.monitor_error(mon, exc)
            return None

    @functools.wraps(orig)
    def wrapper(*args, **kwargs):
        run = RUN
        if run is None or run.in_monitor:
            return orig(*args, **kwargs)
        run.counters[f"{mon}|calls"] += 1
        snap = _judge(pre, args, kwargs) if pre else None
        try:
            res = orig(*args, **kwargs)
            if generator:
                res = list(res)
        except Exception as exc:
            if on_exc:
                _judge(on_exc, snap, exc, args, kwargs)
            else:
                run.counters[f"{mon}|raised"] += 1
            raise
        if post:
            _judge(post, snap, res, args, kwargs)
        return iter(res) if generator else res

    wrapper.__vmon_orig__ = orig
    wrapper.__vmon_name__ = mon
    new = staticmethod(wrapper) if is_static else classmethod(wrapper) if is_class else wrapper
    setattr(owner, attr, new)
    _ATTACHED.append((owner, attr, raw))
    for mod, a in also:
        if getattr(mod, a, None) is orig or getattr(mod, a, None) is raw:
            _ATTACHED.append((mod, a, getattr(mod, a)))
            setattr(mod, a, wrapper)
    return wrapper


def detach_all():
    while _ATTACHED:
        owner, attr, raw = _ATTACHED.pop()
        setattr(owner, attr, raw)


# ------------------------------------------------------------- known findings

def load_known_findings():
    path = os.path.join(VERIF, "known_findings.json")
    if os.environ.get("VERIF_REPO") and os.environ.get("VERIF_KNOWN_FINDINGS"):
        path = os.environ["VERIF_KNOWN_FINDINGS"]      # self-validation of the KNOWN-FINDING plumbing on a scratch copy only
    if not os.path.exists(path):
        return []
    with open(path) as fh:
        return json.load(fh).get("findings", [])


def match_known(prop, mech, findings):
    for f in findings:
        if f.get("status") == "open" and f.get("property") == prop and f.get("mech") == mech:
            return f
    return None


# ----------------------------------------------------------- merge + reporting

def merge_results(results):
    m = {
        "counters": collections.Counter(), "classes": collections.Counter(), "extra": collections.Counter(),
        "sets": collections.defaultdict(set), "samples": [], "viol": {}, "viol_count": collections.Counter(),
        "errors": [], "distinct": set(), "evaluations": 0, "truncated": False, "shards": len(results),
    }
    for r in results:
        m["counters"].update(r["counters"])
        m["classes"].update(r["classes"])
        m["extra"].update(r["extra"])
        for k, v in r["sets"].items():
            m["sets"][k].update(v)
        for s in r["samples"]:
            if len(m["samples"]) < 6:
                m["samples"].append(s)
        for mech, w in r["viol"].items():
            m["viol"].setdefault(mech, w)
        m["viol_count"].update(r["viol_count"])
        m["errors"].extend(r["errors"])
        m["distinct"].update(r["distinct"])
        m["evaluations"] += r["evaluations"]
        m["truncated"] = m["truncated"] or r["truncated"]
    return m


def monitor_table(counters):
    tab = collections.defaultdict(dict)
    for k, v in counters.items():
        mon, _, what = k.rpartition("|")
        tab[mon][what] = v
    return {k: tab[k] for k in sorted(tab)}


def opt(owner, attr):
    """owner.attr, or None when a refactoring removed it (line tracing then just skips the entry)."""
    try:
        return owner.__dict__[attr] if isinstance(owner, type) and attr in owner.__dict__ else getattr(owner, attr)
    except AttributeError:
        return None
