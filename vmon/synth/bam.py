"""Synthetic coordinate-sorted, indexed BAM files plus the ground truth needed by
an oracle that never touches pysam: a plain list of read records."""
import numpy as np

FLAG_REVERSE, FLAG_SECONDARY, FLAG_QCFAIL, FLAG_DUP, FLAG_SUPP, FLAG_UNMAP = 16, 256, 512, 1024, 2048, 4
EXCLUDING = (FLAG_UNMAP, FLAG_SECONDARY, FLAG_QCFAIL, FLAG_DUP)


def gen_reads(rng, contigs, n_reads, indels=False, mapqs=(0, 1, 5, 10, 20, 30, 60), hot=None):
    """contigs: [(name, length)].  Returns read dicts sorted by (contig index, pos):
    {tid, pos, cigar: [(op, len)], flag, mapq}; op in 'MIDS'."""
    reads = []
    for k in range(n_reads):
        tid = int(rng.integers(0, len(contigs)))
        clen = contigs[tid][1]
        rlen = int(rng.integers(30, 151))
        rlen = min(rlen, clen)
        r = rng.random()
        if r < 0.08:
            pos = 0                                   # at the contig start
        elif r < 0.16:
            pos = clen - rlen                         # ends exactly at the contig end
        elif hot and r < 0.5:
            # pile reads around bin edges
            e = int(hot[int(rng.integers(0, len(hot)))])
            pos = int(np.clip(e - int(rng.integers(0, rlen + 1)), 0, clen - rlen))
        else:
            pos = int(rng.integers(0, clen - rlen + 1))
        cigar = []
        aligned = rlen
        if rng.random() < 0.25:
            s = int(rng.integers(1, 20))
            cigar.append(("S", s))
        if indels and rng.random() < 0.5 and aligned > 20:
            a = int(rng.integers(5, aligned - 10))
            if rng.random() < 0.5:
                d = int(rng.integers(1, 15))
                if pos + aligned + d <= clen:
                    cigar += [("M", a), ("D", d), ("M", aligned - a)]
                else:
                    cigar.append(("M", aligned))
            else:
                ins = int(rng.integers(1, 10))
                cigar += [("M", a), ("I", ins), ("M", aligned - a)]
        else:
            cigar.append(("M", aligned))
        if rng.random() < 0.2:
            cigar.append(("S", int(rng.integers(1, 20))))
        flag = 0
        # every combination of the four excluding flags appears; most reads are clean
        if rng.random() < 0.35:
            combo = int(rng.integers(1, 16))
            for bit, f in enumerate(EXCLUDING):
                if combo >> bit & 1:
                    flag |= f
        if rng.random() < 0.5:
            flag |= FLAG_REVERSE
        if rng.random() < 0.05:
            flag |= FLAG_SUPP
        reads.append({"tid": tid, "pos": pos, "cigar": cigar, "flag": flag, "mapq": int(rng.choice(mapqs))})
    reads.sort(key=lambda r: (r["tid"], r["pos"]))
    return reads


def write_bam(path, contigs, reads):
    import pysam
    header = {"HD": {"VN": "1.6", "SO": "coordinate"}, "SQ": [{"SN": n, "LN": l} for n, l in contigs]}
    ops = {"M": 0, "I": 1, "D": 2, "S": 4}
    with pysam.AlignmentFile(path, "wb", header=header) as out:
        for i, r in enumerate(reads):
            a = pysam.AlignedSegment()
            a.query_name = f"r{i}"
            a.flag = r["flag"]
            a.reference_id = r["tid"]
            a.reference_start = r["pos"]
            a.mapping_quality = r["mapq"]
            a.cigartuples = [(ops[o], n) for o, n in r["cigar"]]
            qlen = sum(n for o, n in r["cigar"] if o in "MIS")
            # read letters are irrelevant to depth: every aligned base counts, also an N call or a lower-quality letter
            a.query_sequence = "".join("ACGTN"[(7 * i + 3 * j + (j * j) % 5) % 5] for j in range(qlen)) if i % 3 == 0 else "A" * qlen
            a.query_qualities = pysam.qualitystring_to_array("I" * qlen)
            a.next_reference_id = -1
            a.next_reference_start = -1
            out.write(a)
    pysam.index(path)


def counted(read, min_mapq):
    return not any(read["flag"] & f for f in EXCLUDING) and read["mapq"] >= min_mapq


def aligned_blocks(read):
    pos = read["pos"]
    out = []
    for op, n in read["cigar"]:
        if op == "M":
            out.append((pos, pos + n))
            pos += n
        elif op == "D":
            pos += n
    return out


def depth_arrays(contigs, reads, min_mapq):
    """Per-contig integer depth arrays of the counted reads' aligned bases."""
    arr = [np.zeros(l + 1, dtype=np.int64) for _n, l in contigs]
    for r in reads:
        if counted(r, min_mapq):
            for s, e in aligned_blocks(r):
                arr[r["tid"]][s] += 1
                arr[r["tid"]][e] -= 1
    return [np.cumsum(a)[:-1] for a in arr]
