"""Synthetic VCF 4.2 writer with complete headers (pysam refuses undeclared
FORMAT/INFO keys) and the truth record list the C18 monitors compare with."""


def make_vcf(rng, path, n_records=None):
    nsamp = int(rng.integers(1, 4))
    samples = [["TUMOR", "T1", "S_a"][k] if k == 0 else ["NORMAL", "N1", "S_b", "S_c"][int(rng.integers(0, 4))] + str(k) for k in range(nsamp)]
    if rng.random() < 0.5:
        rng.shuffle(samples)
    pedigree = []
    if nsamp >= 2 and rng.random() < 0.5:
        a, b = rng.choice(nsamp, 2, replace=False)
        pedigree.append((samples[int(a)], samples[int(b)]))
        if nsamp == 3 and rng.random() < 0.3:
            c = [k for k in range(3) if k not in (a, b)][0]
            pedigree.append((samples[c], samples[int(b)]))
    contigs = [str(c) for c in rng.choice(["chr1", "chr2", "chr10", "chrX"], int(rng.integers(1, 4)), replace=False)]
    n = int(rng.choice([0, 1, 5, 30, 120, 500])) if n_records is None else n_records
    recs = []
    used = set()
    for _ in range(n):
        chrom = str(rng.choice(contigs))
        pos = int(rng.integers(1, 200_000))
        if (chrom, pos) in used:
            continue
        used.add((chrom, pos))
        kind = rng.random()
        if kind < 0.8:
            ref, alt = str(rng.choice(list("ACGT"))), None
            alt = str(rng.choice([b for b in "ACGT" if b != ref]))
        elif kind < 0.9:
            ref, alt = "A", "A" + "".join(rng.choice(list("ACGT"), int(rng.integers(1, 4))))
        else:
            ref, alt = "A" + "".join(rng.choice(list("ACGT"), int(rng.integers(1, 4)))), "A"
        fmt = {"GT": True, "AD": rng.random() < 0.8, "DP": rng.random() < 0.7}
        rec = {"chrom": chrom, "pos": pos, "ref": ref, "alt": alt, "somatic": bool(rng.random() < 0.15), "filter": str(rng.choice(["PASS", ".", "q10"])),
               "info_dp": int(rng.integers(1, 400)) if rng.random() < 0.6 else None, "fmt": fmt, "gt": {}, "ad": {}, "dp": {}, "phased": {}}
        for s in samples:
            g = [(0, 1), (0, 1), (0, 0), (1, 1), (1, 0)][int(rng.integers(0, 5))]
            rec["gt"][s] = g
            rec["phased"][s] = bool(rng.random() < 0.3)
            depth = int(rng.choice([1, 5, 19, 20, 21, 40, 200, int(rng.integers(1, 300))]))
            frac = {(0, 0): 0.0, (1, 1): 1.0}.get(g, float(rng.uniform(0.1, 0.9)))
            if rng.random() < 0.2:
                frac = float(rng.uniform(0, 1))
            a = int(round(depth * frac))
            rec["ad"][s] = (depth - a, a)
            rec["dp"][s] = depth + int(rng.choice([0, 0, 3]))       # DP may exceed the AD sum (filtered reads)
        recs.append(rec)
    rng.shuffle(recs)      # unsorted positions and contig order
    lines = ["##fileformat=VCFv4.2"] + [f"##contig=<ID={c},length=300000000>" for c in contigs]
    lines += ['##INFO=<ID=DP,Number=1,Type=Integer,Description="Total depth">', '##INFO=<ID=SOMATIC,Number=0,Type=Flag,Description="Somatic">',
              '##FILTER=<ID=q10,Description="Low quality">', '##FORMAT=<ID=GT,Number=1,Type=String,Description="Genotype">',
              '##FORMAT=<ID=AD,Number=R,Type=Integer,Description="Allelic depths">', '##FORMAT=<ID=DP,Number=1,Type=Integer,Description="Depth">']
    lines += [f"##PEDIGREE=<Derived={t},Original={n}>" for t, n in pedigree]
    lines.append("\t".join(["#CHROM", "POS", "ID", "REF", "ALT", "QUAL", "FILTER", "INFO", "FORMAT"] + samples))
    for r in recs:
        info = []
        if r["info_dp"] is not None:
            info.append(f"DP={r['info_dp']}")
        if r["somatic"]:
            info.append("SOMATIC")
        keys = [k for k in ("GT", "AD", "DP") if r["fmt"][k]]
        cells = []
        for s in samples:
            g = r["gt"][s]
            vals = [("|" if r["phased"][s] else "/").join(map(str, g))]
            if r["fmt"]["AD"]:
                vals.append(",".join(map(str, r["ad"][s])))
            if r["fmt"]["DP"]:
                vals.append(str(r["dp"][s]))
            cells.append(":".join(vals))
        lines.append("\t".join([r["chrom"], str(r["pos"]), ".", r["ref"], r["alt"], ".", r["filter"], ";".join(info) or ".", ":".join(keys)] + cells))
    with open(path, "w") as fh:
        fh.write("\n".join(lines) + "\n")
    for r in recs:
        r.pop("phased")
    return {"samples": samples, "pedigree": pedigree, "records": recs, "contigs": contigs}
