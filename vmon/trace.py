"""Line coverage of the anchored functions via sys.monitoring (3.12+).

Only the code objects of the functions a property is anchored in get LINE
events, and every location disables itself after its first hit, so the cost is
negligible.  The result is evidence ("which anchored lines did this run
execute"), never a verdict.
"""
import sys
import types

_TOOL = 4  # a free tool id (0-5 exist; 0 debugger, 1 coverage, 2 profiler, 5 optimizer)
_seen = {}
_total = {}
_names = {}
_on = False


def _codes(code):
    yield code
    for c in code.co_consts:
        if isinstance(c, types.CodeType):
            yield from _codes(c)


def _cb(code, line):
    s = _seen.get(code)
    if s is not None:
        s.add(line)
    return sys.monitoring.DISABLE


def watch(named_funcs):
    """named_funcs: iterable of (label, function-or-wrapper)."""
    global _on
    mon = getattr(sys, "monitoring", None)
    if mon is None:
        return
    if not _on:
        try:
            mon.use_tool_id(_TOOL, "vmon")
        except ValueError:
            return
        mon.register_callback(_TOOL, mon.events.LINE, _cb)
        _on = True
    for label, f in named_funcs:
        while hasattr(f, "__vmon_orig__"):
            f = f.__vmon_orig__
        f = getattr(f, "__func__", f)
        f = getattr(f, "__wrapped__", f) if not hasattr(f, "__code__") else f
        code = getattr(f, "__code__", None)
        if code is None:
            continue
        # functools.wraps-decorated library functions (on_array): descend to the body
        inner = f
        while hasattr(inner, "__wrapped__"):
            inner = inner.__wrapped__
        for base in {code, inner.__code__}:
            for c in _codes(base):
                if c in _seen:
                    continue
                _seen[c] = set()
                _total[c] = {ln for (_s, _e, ln) in c.co_lines() if ln is not None and ln != c.co_firstlineno}
                _names[c] = label
                mon.set_local_events(_TOOL, c, mon.events.LINE)


def report():
    out = {}
    for c, seen in _seen.items():
        label = _names[c]
        ex, tot = out.get(label, (0, 0))
        out[label] = (ex + len(seen & _total[c]), tot + len(_total[c]))
    return {k: list(v) for k, v in sorted(out.items())}


def missing():
    """Statement lines of the watched functions that this process never executed: {label: {"file": path, "lines": [...]}}."""
    out = {}
    for c, seen in _seen.items():
        label = _names[c]
        miss = sorted(_total[c] - seen)
        d = out.setdefault(label, {"file": c.co_filename, "lines": []})
        d["lines"].extend(miss)
    return {k: {"file": v["file"], "lines": sorted(set(v["lines"]))} for k, v in out.items()}
