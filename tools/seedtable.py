#!/venv/bin/python
"""Markdown table of /verif/seeded/*/meta.json (for DESIGN.md section 9)."""
import glob
import json
import os
import re

V = os.path.dirname(os.path.dirname(os.path.abspath(__file__)))
print("| seed | what was changed (sub-agent's summary, shortened) | needs, to manifest | check verdict: mechanisms reported |")
print("|---|---|---|---|")
for f in sorted(glob.glob(os.path.join(V, "seeded", "*", "meta.json"))):
    m = json.load(open(f))
    name = os.path.basename(os.path.dirname(f))
    summ = re.sub(r"\s+", " ", (m.get("summary") or ""))[:230]
    need = re.sub(r"\s+", " ", (m.get("needs_to_manifest") or ""))[:200]
    chk = (m.get("check_result") or {}).get(m["property"], {})
    mechs = [re.sub(r"^\s*violated \[([^\]]*)\].*", r"\1", l) for l in chk.get("lines", []) if l.strip().startswith("violated")]
    verdict = {"caught": "caught", "missed-then-caught": "missed at first, caught after strengthening", "not-property-breaking": "silent (change keeps the property)", "neutralised-by-fix": "caught when written; no longer breaks the property since the fix named in the note (check silent, as it should be)"}[m["status"]]
    print(f"| {name} | {summ} | {need} | {verdict}{': ' + ', '.join(mechs[:3]) if mechs else ''} |".replace("\n", " "))
