#!/venv/bin/python
"""tools/keepseed.py <Cnn> <A|B> [--status caught|missed-then-fixed|not-property-breaking] [--note TEXT]
Copy a confirmed seeded change from the sub-agents' output area into
/verif/seeded/<Cnn>-<x>/ (patch.diff, demo.py, meta.json)."""
import argparse
import json
import os
import shutil

ap = argparse.ArgumentParser()
ap.add_argument("prop")
ap.add_argument("which")
ap.add_argument("--status", default=None)
ap.add_argument("--note", default="")
ap.add_argument("--src", default="/tmp/seed")
ap.add_argument("--name", default=None, help="directory name under seeded/ (default <Cnn>-<which>)")
a = ap.parse_args()
src = os.path.join(a.src, "out", a.prop)
res = json.load(open(os.path.join(a.src, "results", f"{a.prop}_{a.which}.json")))
notes = {}
try:
    notes = json.load(open(os.path.join(src, "notes.json"))).get(a.which, {})
except Exception:
    pass
dst = os.path.join(os.path.dirname(os.path.dirname(os.path.abspath(__file__))), "seeded", a.name or f"{a.prop}-{a.which}")
os.makedirs(dst, exist_ok=True)
shutil.copy(os.path.join(src, f"{a.which}.diff"), os.path.join(dst, "patch.diff"))
shutil.copy(os.path.join(src, f"demo_{a.which}.py"), os.path.join(dst, "demo.py"))
meta = {
    "property": a.prop,
    "origin": "written by an independent sub-agent from the property text only, in its own scratch git worktree of /repo (nothing from /verif was visible to it)",
    "summary": notes.get("summary"),
    "files": notes.get("files"),
    "needs_to_manifest": notes.get("needs_to_manifest"),
    "confirmed_by": "tools/vseed in a fresh scratch worktree: demo exit on unmodified tree / with patch, repository test-suite with patch, ./vcheck against the patched tree",
    "demo_unmodified_exit": res.get("demo_unmodified_exit"),
    "demo_patched_exit": res.get("demo_patched_exit"),
    "repo_tests_with_patch": {"tail": res.get("tests_tail"), "unexpected_failures": res.get("tests_unexpected_failures")},
    "check_result": res.get("checks"),
    "status": a.status or ("caught" if res.get("caught") else "missed"),
    "note": a.note,
}
with open(os.path.join(dst, "meta.json"), "w") as fh:
    json.dump(meta, fh, indent=1)
print(dst, meta["status"])
