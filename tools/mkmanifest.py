#!/venv/bin/python
"""Regenerate MANIFEST.json from the property modules present under vmon/props."""
import importlib
import json
import os
import sys

HERE = os.path.dirname(os.path.dirname(os.path.abspath(__file__)))
sys.path.insert(0, HERE)
os.environ.setdefault("CNVKIT_VERIF", "1")

props = [json.loads(l) for l in open(os.path.join(HERE, "properties.jsonl"))]
na_reasons = {}
p = os.path.join(HERE, "tools", "not_applicable.json")
if os.path.exists(p):
    na_reasons = json.load(open(p))

BASE = "cd /repo && env -u CNVKIT_VERIF /venv/bin/python -m pytest -ra -q -p no:cacheprovider --timeout=900 --continue-on-collection-errors"
checks, na = [], []
for pr in props:
    pid = pr["id"]
    if not os.path.exists(os.path.join(HERE, "vmon", "props", pid + ".py")) or pid in na_reasons:
        na.append({"property_id": pid, "reason": na_reasons.get(pid, "check not built yet in this round (work in progress; nothing about the technique prevents it)")})
        continue
    mod = importlib.import_module(f"vmon.props.{pid}")
    checks.append({
        "property_id": pid,
        "quick_cmd": f"./vcheck {pid} --tier quick",
        "thorough_cmd": f"./vcheck {pid} --tier thorough",
        "evidence_file": f"evidence/{pid}.json",
        "replay_cmd_template": f"./vcheck {pid} --replay {{path}}",
        "engine": "vmon",
        "level_claimed": {
            "category": getattr(mod, "LEVEL", "exploration"),
            "text": getattr(mod, "LEVEL_TEXT", "Runtime monitors with an independent reference model judged every observed call of the anchored functions under generated workloads; the property held on the executions counted in the evidence file, nothing more."),
            "design_ref": f"DESIGN.md section 4, {pid}",
        },
        "level_note": getattr(mod, "LEVEL_NOTE", "; ".join(getattr(mod, "ASSUMPTIONS", [])) or "trusted base: numpy/pandas and the reference model in vmon/models"),
        "technique": getattr(mod, "TECHNIQUE", "runtime monitors (wrappers on the real functions) + independent reference model, driven by generated workloads"),
    })

man = {
    "version": 1,
    "setup_cmd": "/venv/bin/python -m compileall -q /verif/vmon >/dev/null; true",
    "hooks": {
        "guard": "CNVKIT_VERIF",
        "enable": "no build step and no hook inside /repo: vcheck sets CNVKIT_VERIF=1 and vmon.runtime.attach() then replaces module/class attributes of the editable install (which resolves to /repo's working tree) by monitor wrappers; with the variable unset attach() refuses to run and the library is untouched",
        "baseline_off_cmd": BASE,
        "source_commits": [],
        "add_only": True,
    },
    "engines": [{
        "name": "vmon", "path": "vmon/", "serves_properties": [c["property_id"] for c in checks],
        "kind_free_text": "runtime monitoring: wrappers attached in-process to the real cnvlib/skgenome functions record call/return events, evaluate independent reference models (vmon/models) and three-valued verdicts; workloads are generated (systematic small scopes, boundary-directed and random), sharded over subprocesses; sys.monitoring line coverage of the anchored functions is reported as evidence",
    }],
    "checks": checks,
    "not_applicable": na,
    "notes": "exit 0 held / 1 violation (VIOLATION line) / 2 inconclusive (a deciding monitor saw too little or the harness failed). VERIF_SEED and VERIF_TIER are honoured. Genuine defects repaired in /repo are listed as fixed in known_findings.json; see DESIGN.md section 5.",
}
with open(os.path.join(HERE, "MANIFEST.json"), "w") as fh:
    json.dump(man, fh, indent=1)
print("checks:", [c["property_id"] for c in checks], "n/a:", [n["property_id"] for n in na])
