#!/venv/bin/python
"""Regenerate mutants/*.diff from the table below (exact-substring edits on a
scratch copy of /repo's cnvlib/ and skgenome/).  Entries whose `old` text no
longer matches exactly `count` times are reported and skipped, so the set
stays honest when the repository moves.

  tools/mkmutants.py            regenerate all
  tools/mkmutants.py C06        only one property
"""
import os
import shutil
import subprocess
import sys
import tempfile

VERIF = os.path.dirname(os.path.dirname(os.path.abspath(__file__)))

# (name, property, file, old, new[, count])
M = [
    # ---- C01
    ("C01-swap-ref-expect", "C01", "cnvlib/call.py", "ncopies = (ref_copies * 2**log2_ratio - expect_copies * (1 - purity)) / purity",
     "ncopies = (expect_copies * 2**log2_ratio - ref_copies * (1 - purity)) / purity"),
    ("C01-no-clip", "C01", "cnvlib/call.py", 'return df["absolute"].clip(lower=0)', 'return df["absolute"]'),
    ("C01-floor", "C01", "cnvlib/call.py", 'outarr["cn"] = absolutes.round().astype("int")', 'outarr["cn"] = np.floor(absolutes).astype("int")'),
    ("C01-expect-y-female", "C01", "cnvlib/call.py", '"expect"] = 0 if is_sample_female else ploidy // 2', '"expect"] = ploidy // 2'),
    ("C01-cli-purity-dropped", "C01", "cnvlib/commands.py", "        args.ploidy,\n        args.purity,\n        args.male_reference,\n        is_sample_female,", "        args.ploidy,\n        None,\n        args.male_reference,\n        is_sample_female,"),
    ("C01-cli-sex-swapped", "C01", "cnvlib/commands.py", "        args.male_reference,\n        is_sample_female,\n        args.diploid_parx_genome,\n        args.filters,", "        is_sample_female,\n        args.male_reference,\n        args.diploid_parx_genome,\n        args.filters,"),
    ("C01-cli-center-at-sign", "C01", "cnvlib/commands.py", 'cnarr["log2"] -= args.center_at', 'cnarr["log2"] += args.center_at'),
    # ---- C02
    ("C02-lt", "C02", "cnvlib/call.py", "if row.log2 <= thresh:", "if row.log2 < thresh:"),
    ("C02-round-haploid", "C02", "cnvlib/call.py", "cnum = int(cnum * ref_copies / ploidy)", "cnum = int(round(cnum * ref_copies / ploidy))"),
    ("C02-ceil-round", "C02", "cnvlib/call.py", "cnum = int(np.ceil(_log2_ratio_to_absolute_pure(row.log2, ref_copies)))",
     "cnum = int(np.round(_log2_ratio_to_absolute_pure(row.log2, ref_copies)))"),
    ("C02-nan-zero", "C02", "cnvlib/call.py", "            absolutes[idx] = ref_copies\n            continue", "            absolutes[idx] = 0\n            continue"),
    ("C02-no-clip-cn1", "C02", "cnvlib/call.py", '(absolutes * upper_baf).round().clip(0, outarr["cn"]).astype("int")', '(absolutes * upper_baf).round().astype("int")'),
    ("C02-isnull-or", "C02", "cnvlib/call.py", 'is_null = outarr["baf"].isnull() & (outarr["cn"] > 0)', 'is_null = outarr["baf"].isnull() | (outarr["cn"] > 0)'),
    ("C02-cli-thresholds-dropped", "C02", "cnvlib/commands.py", "        args.filters,\n        args.thresholds,\n    )", "        args.filters,\n    )"),
    ("C02-cli-filters-sorted", "C02", "cnvlib/commands.py", "        args.diploid_parx_genome,\n        args.filters,\n        args.thresholds,", "        args.diploid_parx_genome,\n        sorted(args.filters),\n        args.thresholds,"),
    ("C02-cli-male-ref-dropped", "C02", "cnvlib/commands.py", "        args.purity,\n        args.male_reference,\n        is_sample_female,", "        args.purity,\n        False,\n        is_sample_female,"),
    ("C03-cli-outliers-dropped", "C03", "cnvlib/commands.py", "        skip_outliers=args.drop_outliers,\n", "", None),
    ("C04-cli-edge-gc-swapped", "C04", "cnvlib/commands.py", "        args.do_gc,\n        args.do_edge,\n        args.do_rmask,\n        args.cluster,\n        args.smoothing_window_fraction,", "        args.do_edge,\n        args.do_gc,\n        args.do_rmask,\n        args.cluster,\n        args.smoothing_window_fraction,"),
    ("C12-cli-min-size-dropped", "C12", "cnvlib/commands.py", "antitarget.do_antitarget(targets, access, args.avg_size, args.min_size)", "antitarget.do_antitarget(targets, access, args.avg_size)"),
    ("C12-cli-split-short-swapped", "C12", "cnvlib/commands.py", "regions, args.annotate, args.short_names, args.split, args.avg_size", "regions, args.annotate, args.split, args.short_names, args.avg_size"),
    ("C16-cli-drop-low-ignored", "C16", "cnvlib/commands.py", "        args.min_probes,\n        args.drop_low_coverage,\n        args.male_reference,\n        is_sample_female,", "        args.min_probes,\n        False,\n        args.male_reference,\n        is_sample_female,"),
    ("C17-cli-alpha-default", "C17", "cnvlib/commands.py", "    sig = do_bintest(cnarr, segments, args.alpha, args.target)", "    sig = do_bintest(cnarr, segments, target_only=args.target)"),
    ("C17-cli-smooth-ignored", "C17", "cnvlib/commands.py", "        args.bootstrap,\n        args.smooth_bootstrap,\n", "        args.bootstrap,\n        False,\n"),
    ("C04-clip", "C04", "cnvlib/fix.py", "    weights = weights.clip(epsilon, 1.0)\n", "    weights = weights.clip(0, 1.0)\n"),
    ("C04-nan-weights-back", "C04", "cnvlib/fix.py", "    weights[np.isnan(weights)] = epsilon\n", ""),
    ("C03-hmm-sd-floor-removed", "C03", "cnvlib/segmentation/hmm.py", "    stdev = max(stdev, 1e-3)\n", ""),
    # ---- C06
    ("C06-merge-abutting", "C06", "skgenome/merge.py", "group_keys = np.r_[False, gap_sizes > (-bp)].cumsum()", "group_keys = np.r_[False, gap_sizes >= (-bp)].cumsum()"),
    ("C06-merge-no-cummax", "C06", "skgenome/merge.py", "    gap_sizes = table.start.values[1:] - table.end.cummax().values[:-1]\n    group_keys",
     "    gap_sizes = table.start.values[1:] - table.end.values[:-1]\n    group_keys"),
    ("C06-subtract-no-cummax", "C06", "skgenome/subtract.py", "cummax()", "copy()"),
    ("C06-subdivide-round", "C06", "skgenome/subdivide.py", "bin_end = row.start + int(i * bin_size)", "bin_end = row.start + int(round(i * bin_size + 0.5))"),
    ("C06-trim-no-clip-end", "C06", "skgenome/intersect.py", "subtable.end = subtable.end.clip(upper=end_val)", "pass"),
    # ---- C07
    ("C07-searchsorted-side", "C07", "skgenome/intersect.py", 'end_idxs = table.end.searchsorted(ends, "right")', 'end_idxs = table.end.searchsorted(ends, "left")'),
    ("C07-outer-start-side", "C07", "skgenome/intersect.py", 'start_idxs = table.end.searchsorted(starts, "right")', 'start_idxs = table.end.searchsorted(starts, "left")'),
    ("C07-nested-switch", "C07", "skgenome/intersect.py", "if (has_starts or has_ends) and not table.end.is_monotonic_increasing:",
     "if (has_starts and has_ends) and not table.end.is_monotonic_increasing:"),
    ("C07-trim-start", "C07", "skgenome/intersect.py", "subtable.start = subtable.start.clip(lower=start_val)", "subtable.start = subtable.start.clip(lower=start_val + 1)"),
    # ---- C08
    ("C08-picard-read-start", "C08", "skgenome/tabio/picard.py", '    dframe["start"] -= 1\n', "    pass\n", 2),
    ("C08-seg-read-start", "C08", "skgenome/tabio/seg.py", '    dframe["start"] -= 1\n', "    pass\n"),
    ("C08-read-no-sort", "C08", "skgenome/tabio/__init__.py", "    result.sort_columns()\n    result.sort()\n", "    result.sort_columns()\n"),
    ("C08-sort-end-before-start", "C08", "skgenome/gary.py", '.sort_values(by=["_sort_key_", "start", "end"], kind="mergesort")', '.sort_values(by=["_sort_key_", "end", "start"], kind="mergesort")'),
    ("C08-float-format", "C08", "skgenome/tabio/__init__.py", "float_format='%.6g'", "float_format='%.4g'"),
    # ---- C12
    ("C12-pad", "C12", "cnvlib/antitarget.py", "pad_size = 2 * INSERT_SIZE", "pad_size = INSERT_SIZE"),
    ("C12-min-size-ignored", "C12", "cnvlib/antitarget.py", ".subdivide(avg_bin_size, min_bin_size)", ".subdivide(avg_bin_size, 0)"),
    ("C12-target-zero-width", "C12", "cnvlib/target.py", "tgt_arr = tgt_arr[tgt_arr.start != tgt_arr.end]", "tgt_arr = tgt_arr[tgt_arr.start < tgt_arr.end - 1]"),
    ("C09-chromosome-dtype-inferred", "C09", "cnvlib/coverage.py", 'dtype={"chromosome": str, "gene": str},', 'dtype={"gene": str},'),
    ("C09-names-default-na", "C09", "cnvlib/coverage.py", '        keep_default_na=False,\n        na_values=[""],\n', ''),
    ("C13-blank-line-starts-run", "C13", "cnvlib/access.py", '                if not line:\n                    # A blank line holds no bases; it must not start a run\n                    continue\n', ''),
    ("C08-tab-names-inferred", "C08", "skgenome/tabio/tab.py", ', converters={"gene": str}', ''),
    ("C08-interval-names-inferred", "C08", "skgenome/tabio/picard.py", '        keep_default_na=False,\n        na_values=[""],\n', ''),
    ("C19-int-weights-in-place", "C19", "cnvlib/smoothing.py", "_pad_array(np.asarray(weights, dtype=float), wing)", "_pad_array(weights, wing)"),
    ("C03-int-weights-in-place", "C03", "cnvlib/smoothing.py", "_pad_array(np.asarray(weights, dtype=float), wing)", "_pad_array(weights, wing)"),
    ("C17-bintest-nan-poison", "C17", "cnvlib/bintest.py", '    p = np.where((cnarr["log2"] == 0) & (cnarr["weight"] == 1), 1.0, p)\n', ''),
    ("C04-gc-correction-skipped", "C04", "cnvlib/fix.py", "        if fix_gc:\n", "        if fix_gc and False:\n"),
    ("C04-all-corrections-skipped-for-antitargets", "C04", "cnvlib/fix.py", "        if fix_rmask:\n", "        if False:\n"),
    ("C19-wmedian-abs-epsilon", "C19", "cnvlib/descriptives.py", "    tolerance = len(a) * sys.float_info.epsilon * midpoint\n", "    tolerance = 0.0\n"),
    ("C19-wmedian-loose-tolerance", "C19", "cnvlib/descriptives.py", "    tolerance = len(a) * sys.float_info.epsilon * midpoint\n", "    tolerance = 1e-5 * midpoint\n"),
    ("C07-float32-not-float", "C07", "skgenome/intersect.py", "isinstance(elem, (float, np.floating))", "isinstance(elem, (float, np.float64))"),
    ("C10-empty-target-not-copied", "C10", "cnvlib/fix.py", "        return cnarr.copy(), ref_cnarr[:0]", "        return cnarr, ref_cnarr[:0]"),
    ("C12-annotate-by-label", "C12", "cnvlib/target.py", 'annotation.into_ranges(tgt_arr, "gene", "-").values', 'annotation.into_ranges(tgt_arr, "gene", "-")'),
    # ---- C13
    ("C13-join-le", "C13", "cnvlib/access.py", "if gap < min_gap_size:", "if gap <= min_gap_size:"),
    ("C13-tail-offbyone", "C13", "cnvlib/access.py", "run_start = cursor + n_indices[-1] + 1", "run_start = cursor + n_indices[-1]"),
    ("C13-ok-starts", "C13", "cnvlib/access.py", "ok_starts = n_indices[:-1][gap_mask] + 1 + cursor", "ok_starts = n_indices[:-1][gap_mask] + cursor"),
    # ---- C14
    ("C14-diff-noabs", "C14", "cnvlib/segfilters.py", "return levels.diff().fillna(0).ne(0).cumsum()", "return levels.diff().fillna(0).cumsum().astype(int)"),
    ("C14-truncated-steps", "C14", "cnvlib/segfilters.py", "return levels.diff().fillna(0).ne(0).cumsum()", "return levels.diff().fillna(0).abs().cumsum().astype(int)"),
    ("C14-probes-len", "C14", "cnvlib/segfilters.py", 'out["probes"] = cnarr["probes"].sum() if "probes" in cnarr else len(cnarr)', 'out["probes"] = len(cnarr)'),
    ("C14-no-chrom-key", "C14", "cnvlib/segfilters.py", "        change_levels += chrom_col\n", "        pass\n"),
    # ---- C15
    ("C15-shift-sign", "C15", "cnvlib/cnary.py", "            shift = -estimator(values)", "            shift = estimator(values)"),
    ("C15-guess-xx-inverted", "C15", "cnvlib/cnary.py", "        return ~is_xy", "        return is_xy"),
    ("C15-flat-female-x", "C15", "cnvlib/cnary.py", "            idx = (self.chr_y_filter()).values", "            idx = self.chr_x_filter().values | (self.chr_y_filter()).values"),
    # ---- C16
    ("C16-end-inclusive", "C16", "cnvlib/cnary.py", "                    end_idx = gene_idx[-1] + 1", "                    end_idx = gene_idx[-1] + 2"),
    ("C16-telomere-dropped", "C16", "cnvlib/cnary.py", "            if prev_idx < len(subgary):", "            if prev_idx < len(subgary) - 1:"),
    # ---- C17
    ("C17-pi-alpha", "C17", "cnvlib/segmetrics.py", "    pct_lo = 100 * alpha / 2\n    pct_hi = 100 * (1 - alpha / 2)", "    pct_lo = 100 * alpha\n    pct_hi = 100 * (1 - alpha)"),
    ("C17-bintest-onesided", "C17", "cnvlib/bintest.py", "p = 2.0 * norm.cdf(-np.abs(z))", "p = norm.cdf(-np.abs(z))"),
    ("C17-inner", "C17", "cnvlib/segmetrics.py", 'bins_log2s = list(cnarr.iter_ranges_of(segarr, "log2", "outer", True))', 'bins_log2s = list(cnarr.iter_ranges_of(segarr, "log2", "inner", True))'),
    # ---- C18
    ("C18-mirror", "C18", "cnvlib/vary.py", "        return 0.5 + shift\n    return 0.5 - shift", "        return 0.5 - shift\n    return 0.5 + shift"),
    ("C18-ad0", "C18", "skgenome/tabio/vcfio.py", 'alt_count = sample["AD"][1]', 'alt_count = sample["AD"][0]'),
    ("C18-min-depth-gt", "C18", "skgenome/tabio/vcfio.py", "idx_depth = table[dkey] >= min_depth", "idx_depth = table[dkey] > min_depth"),
    ("C18-baf-fresh-index", "C18", "cnvlib/vary.py", "        return ranges.as_series(np.asarray(bafs, dtype=float))\n", "        return pd.Series(np.asarray(bafs, dtype=float))\n"),
    # ---- C19
    ("C19-biweight-c", "C19", "cnvlib/descriptives.py", "def biweight_location(a, initial=None, c=6.0, epsilon=1e-3, max_iter=5):", "def biweight_location(a, initial=None, c=9.0, epsilon=1e-3, max_iter=5):"),
    ("C19-iqr", "C19", "cnvlib/descriptives.py", "return np.percentile(a, 75) - np.percentile(a, 25)", "return np.percentile(a, 80) - np.percentile(a, 20)"),
    ("C19-pad-mirror", "C19", "cnvlib/smoothing.py", "return np.concatenate((x[wing - 1 :: -1], x, x[: -wing - 1 : -1]))", "return np.concatenate((x[wing:0:-1], x, x[: -wing - 1 : -1]))"),
    # ---- C20
    ("C20-seg-start", "C20", "skgenome/tabio/seg.py", "start + 1", "start", None),
]


def main():
    only = sys.argv[1] if len(sys.argv) > 1 else None
    scratch = tempfile.mkdtemp(prefix="mkmut.", dir="/tmp")
    try:
        for d in ("cnvlib", "skgenome"):
            shutil.copytree(os.path.join("/repo", d), os.path.join(scratch, d), ignore=shutil.ignore_patterns("__pycache__"))
        subprocess.run("git init -q . && git add -A && git -c user.email=x@x -c user.name=x commit -qm base", shell=True, cwd=scratch, check=True)
        os.makedirs(os.path.join(VERIF, "mutants"), exist_ok=True)
        for ent in M:
            name, prop, rel, old, new = ent[:5]
            count = ent[5] if len(ent) > 5 else 1
            if only and prop != only:
                continue
            path = os.path.join(scratch, rel)
            with open(path) as fh:
                src = fh.read()
            n = src.count(old)
            if (count is not None and n != count) or n == 0:
                print(f"SKIP {name}: pattern occurs {n}x in {rel} (expected {count})")
                continue
            with open(path, "w") as fh:
                fh.write(src.replace(old, new))
            diff = subprocess.run(["git", "diff"], cwd=scratch, stdout=subprocess.PIPE, text=True).stdout
            subprocess.run(["git", "checkout", "-q", "--", "."], cwd=scratch)
            try:
                compile(src.replace(old, new), rel, "exec")
            except SyntaxError as exc:
                print(f"SKIP {name}: does not compile ({exc})")
                continue
            with open(os.path.join(VERIF, "mutants", name + ".diff"), "w") as fh:
                fh.write(diff)
            print(f"ok   {name}")
    finally:
        shutil.rmtree(scratch, ignore_errors=True)


if __name__ == "__main__":
    main()
